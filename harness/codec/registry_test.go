package codec

import (
	"go/ast"
	"go/parser"
	"go/token"
	"os"
	"path/filepath"
	"reflect"
	"sort"
	"strings"
	"sync"
	"testing"

	"github.com/vapourismo/knx-go/knx/dpt"
)

func runes(s string) []int {
	r := []int{}
	for _, c := range s {
		r = append(r, int(c))
	}
	return r
}

type regName struct {
	K     string    `json:"k"`
	Op    string    `json:"op"` // name | declared | unknown | seq | conc
	Name  []int     `json:"name"`
	OK    int       `json:"ok"`
	Type  []int     `json:"type"` // reflect type name of the produced value
	Dup   int       `json:"dup"`  // how often the name is listed
	Decl  [][]int   `json:"decl"` // op=declared: exported DPT_* type names found in the package source
	Prod  [][]int   `json:"prod"` // op=declared: type names produced by the listed names
	Steps []regStep `json:"steps"`
	Ref   [][]Val   `json:"ref"` // seq: ref[t][p] = value of a fresh instance of type t after Unpack(payload p); ref[t][0] = zero value
	Mism  int       `json:"mism"`
}

type regStep struct {
	Op   string `json:"op"` // produce | unpack | read
	Inst int    `json:"inst"`
	T    int    `json:"t"` // type index (produce)
	P    int    `json:"p"` // payload index 1..  (unpack)
	Val  Val    `json:"val"`
	OK   int    `json:"ok"`
}

func blankReg(op string) regName {
	return regName{K: "reg", Op: op, Name: []int{}, Type: []int{}, Decl: [][]int{}, Prod: [][]int{}, Steps: []regStep{}, Ref: [][]Val{}}
}

func declaredTypes(t *testing.T) []string {
	dir := "/repo/knx/dpt"
	if r := os.Getenv("VERIF_REPO"); r != "" { // (mutation runs work on a scratch worktree)
		dir = r + "/knx/dpt"
	}
	if d := os.Getenv("VERIF_REPO"); d != "" {
		dir = filepath.Join(d, "knx/dpt")
	}
	fset := token.NewFileSet()
	pkgs, err := parser.ParseDir(fset, dir, func(fi os.FileInfo) bool { return !strings.HasSuffix(fi.Name(), "_test.go") }, 0)
	if err != nil {
		t.Fatal(err)
	}
	var out []string
	for _, p := range pkgs {
		for _, f := range p.Files {
			for _, d := range f.Decls {
				gd, ok := d.(*ast.GenDecl)
				if !ok || gd.Tok != token.TYPE {
					continue
				}
				for _, s := range gd.Specs {
					ts := s.(*ast.TypeSpec)
					if strings.HasPrefix(ts.Name.Name, "DPT_") && ast.IsExported(ts.Name.Name) {
						out = append(out, ts.Name.Name)
					}
				}
			}
		}
	}
	sort.Strings(out)
	return out
}

// a valid payload for name, variant p (1, 2): distinct decodable values
func samplePayload(name string, p int) []byte {
	main, _ := splitName(name)
	n := fixedLen(main)
	switch {
	case n == 1:
		return []byte{byte(p % 2)}
	case main == 10:
		return []byte{0, byte(p<<5 | (10 + p)), byte(20 + p), byte(30 + p)}
	case main == 11:
		return []byte{0, byte(10 + p), byte(3 + p), byte(20 + p)}
	case main == 16:
		b := make([]byte, 15)
		copy(b[1:], []byte("verif-")[:5])
		b[6] = byte('0' + p)
		return b
	case main == 28:
		return []byte{0, byte('a' + p), byte('b' + p), 0}
	case main == 242 || main == 251:
		return []byte{0, byte(p), byte(2 * p), byte(3 * p), byte(4 * p), 0, byte(p % 4)}
	case n > 0:
		b := make([]byte, n)
		b[n-1] = byte(7 * p)
		if n > 2 {
			b[n-2] = byte(p)
		}
		return b
	}
	return nil
}

func TestC19(t *testing.T) {
	o, err := Open("VERIF_OUT")
	if err != nil {
		t.Skip(err)
	}
	defer o.Close()
	rng := Rng()
	// a caller may do what it likes with the list it got (filter it in place, relabel entries): the registry must not
	// share state with it - the list judged below is obtained AFTER a first one has been scribbled over
	first := dpt.ListSupportedTypes()
	for i := range first {
		first[i] = "junk-" + first[(i*7)%len(first)]
	}
	first = first[:0]
	_ = append(first, "x.y", "x.y")
	listed := dpt.ListSupportedTypes()
	sort.Strings(listed)
	count := map[string]int{}
	for _, n := range listed {
		count[n]++
	}
	var prod [][]int
	for _, n := range listed {
		r := blankReg("name")
		r.Name, r.Dup = runes(n), count[n]
		d, ok := dpt.Produce(n)
		r.OK = B2i(ok)
		if ok {
			r.Type = runes(reflect.TypeOf(d).Elem().Name())
			prod = append(prod, r.Type)
		}
		o.Rec(r)
	}
	dr := blankReg("declared")
	for _, d := range declaredTypes(t) {
		dr.Decl = append(dr.Decl, runes(d))
	}
	dr.Prod = prod
	if dr.Prod == nil {
		dr.Prod = [][]int{}
	}
	o.Rec(dr)
	// unknown names
	near := []string{"", " ", ".", "1", "1.", ".001", "1.1", "1.0010", "01.001", "1.001 ", " 1.001", "1,001", "9.1", "DPT_1001", "1.001.0", "1.00a", "１.００１", "14.12000", "0.000", "999.999", "1.000"}
	for i := 0; i < 1000; i++ {
		l := rng.Intn(9)
		b := make([]byte, l)
		for j := range b {
			b[j] = "0123456789.. -x"[rng.Intn(15)]
		}
		near = append(near, string(b))
	}
	for _, n := range near {
		if count[n] > 0 {
			continue
		}
		r := blankReg("unknown")
		r.Name = runes(n)
		p, _ := Guarded(func() {
			_, ok := dpt.Produce(n)
			r.OK = B2i(ok)
		})
		if p {
			r.OK = 2
		}
		o.Rec(r)
	}
	// (the later phases work with the names that can actually be produced: a corrupt listing has been logged above)
	var usable []string
	for _, n := range listed {
		if _, ok := dpt.Produce(n); ok {
			usable = append(usable, n)
		}
	}
	if len(usable) == 0 {
		t.Logf("%d records (no producible name: later phases skipped)", o.n)
		return
	}
	listed = usable
	// independence: operation sequences over a few instances of two types
	pairs := 200
	if Thorough() {
		pairs = 3000
	}
	for k := 0; k < pairs; k++ {
		ta, tb := listed[rng.Intn(len(listed))], listed[rng.Intn(len(listed))]
		if Thorough() && k < len(listed) {
			ta, tb = listed[k], listed[(k+1)%len(listed)]
		}
		types := []string{ta, tb}
		r := blankReg("seq")
		for _, tn := range types {
			var vals []Val
			z, _ := dpt.Produce(tn)
			vals = append(vals, valOf(z))
			for p := 1; p <= 2; p++ {
				d, _ := dpt.Produce(tn)
				if err := d.Unpack(samplePayload(tn, p)); err != nil {
					vals = append(vals, valOf(z))
				} else {
					vals = append(vals, valOf(d))
				}
			}
			r.Ref = append(r.Ref, vals)
		}
		var inst []dpt.Datapoint
		var instT []int
		scratch := make([]byte, 64)
		nsteps := 6 + rng.Intn(10)
		for s := 0; s < nsteps; s++ {
			c := rng.Intn(10)
			switch {
			case len(inst) == 0 || (c < 3 && len(inst) < 4):
				ti := rng.Intn(2)
				d, _ := dpt.Produce(types[ti])
				inst = append(inst, d)
				instT = append(instT, ti)
				r.Steps = append(r.Steps, regStep{Op: "produce", Inst: len(inst), T: ti + 1, Val: noVal()})
			case c < 7:
				i := rng.Intn(len(inst))
				p := 1 + rng.Intn(2)
				// every payload is decoded from one shared scratch buffer that is overwritten right after the
				// call, as a receive loop does: an instance must not keep a reference into it
				pl := samplePayload(types[instT[i]], p)
				buf := scratch[:len(pl)]
				copy(buf, pl)
				err := inst[i].Unpack(buf)
				for j := range buf {
					buf[j] = 'Z'
				}
				r.Steps = append(r.Steps, regStep{Op: "unpack", Inst: i + 1, P: p, OK: B2i(err == nil), Val: noVal()})
			default:
				i := rng.Intn(len(inst))
				r.Steps = append(r.Steps, regStep{Op: "read", Inst: i + 1, Val: valOf(inst[i])})
			}
		}
		for i := range inst {
			r.Steps = append(r.Steps, regStep{Op: "read", Inst: i + 1, Val: valOf(inst[i])})
		}
		o.Rec(r)
	}
	// concurrency: 16 goroutines produce and decode into their own instances; every value is compared
	// with what a fresh instance yields (run under the race detector in the thorough tier)
	var wg sync.WaitGroup
	var mu sync.Mutex
	mism := 0
	for g := 0; g < 16; g++ {
		wg.Add(1)
		go func(g int) {
			defer wg.Done()
			lr := Rng()
			for i := 0; i < 400; i++ {
				n := listed[(g*31+i*7+lr.Intn(3))%len(listed)]
				p := 1 + (g+i)%2
				d, _ := dpt.Produce(n)
				ref, _ := dpt.Produce(n)
				pl := samplePayload(n, p)
				e1 := d.Unpack(pl)
				z, _ := dpt.Produce(n) // a later Produce must still yield the zero value
				zz, _ := dpt.Produce(n)
				e2 := ref.Unpack(pl)
				if (e1 == nil) != (e2 == nil) || !reflect.DeepEqual(d, ref) || !reflect.DeepEqual(z, zz) || (e1 == nil && p == 1 && false) {
					mu.Lock()
					mism++
					mu.Unlock()
				}
				zero := reflect.Zero(reflect.TypeOf(z).Elem()).Interface()
				if !reflect.DeepEqual(reflect.ValueOf(z).Elem().Interface(), zero) {
					mu.Lock()
					mism++
					mu.Unlock()
				}
			}
		}(g)
	}
	wg.Wait()
	// ... and family by family: all goroutines decode types of ONE main number at the same time (types of a family share
	// their helpers: state shared between them shows when they run together), each result compared with the value the
	// same payload gave sequentially
	type key struct {
		n string
		p int
	}
	seqVal := map[key]Val{}
	seqErr := map[key]bool{}
	groups := map[int][]string{}
	for _, n := range listed {
		m, _ := splitName(n)
		groups[m] = append(groups[m], n)
		for p := 1; p <= 2; p++ {
			d, _ := dpt.Produce(n)
			err := d.Unpack(samplePayload(n, p))
			seqVal[key{n, p}], seqErr[key{n, p}] = valOf(d), err != nil
		}
	}
	for _, names := range groups {
		var wg2 sync.WaitGroup
		for g := 0; g < 16; g++ {
			wg2.Add(1)
			go func(g int) {
				defer wg2.Done()
				for i := 0; i < 40; i++ {
					n := names[(g+i)%len(names)]
					p := 1 + (g+i/3)%2
					d, _ := dpt.Produce(n)
					err := d.Unpack(samplePayload(n, p))
					if (err != nil) != seqErr[key{n, p}] || (err == nil && !reflect.DeepEqual(valOf(d), seqVal[key{n, p}])) {
						mu.Lock()
						mism++
						mu.Unlock()
					}
				}
			}(g)
		}
		wg2.Wait()
	}
	cr := blankReg("conc")
	cr.Mism = mism
	o.Rec(cr)
	t.Logf("%d records", o.n)
}
