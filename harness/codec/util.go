// Package codec contains the record loggers for the pure codec properties: they run the
// real Pack/Unpack functions over enumerated and seeded input domains and log raw
// input/output records (bytes, field values, bit patterns). The TLA+ reference
// specifications - evaluated by TLC over these records - own the meaning.
package codec

import (
	"bufio"
	"encoding/json"
	"fmt"
	"math/rand"
	"os"
	"strconv"
)

type Out struct {
	f *os.File
	w *bufio.Writer
	n int
}

func Open(env string) (*Out, error) {
	p := os.Getenv(env)
	if p == "" {
		return nil, fmt.Errorf("%s not set", env)
	}
	f, err := os.Create(p)
	if err != nil {
		return nil, err
	}
	return &Out{f: f, w: bufio.NewWriterSize(f, 1<<20)}, nil
}

func (o *Out) Rec(v interface{}) {
	b, err := json.Marshal(v)
	if err != nil {
		panic(err)
	}
	o.w.Write(b)
	o.w.WriteByte('\n')
	o.n++
}

func (o *Out) Close() { o.w.Flush(); o.f.Close() }

func Seed() int64 {
	s, err := strconv.ParseInt(os.Getenv("VERIF_SEED"), 10, 64)
	if err != nil {
		return 1
	}
	return s
}

func Rng() *rand.Rand { return rand.New(rand.NewSource(Seed()*2654435761 + 12345)) }

func Thorough() bool { return os.Getenv("VERIF_TIER") == "thorough" }

// Ints converts bytes to a JSON array of numbers (a []byte would be base64).
func Ints(b []byte) []int {
	r := make([]int, len(b))
	for i, x := range b {
		r[i] = int(x)
	}
	return r
}

func B2i(b bool) int {
	if b {
		return 1
	}
	return 0
}

// Guarded runs f and reports whether it panicked.
func Guarded(f func()) (panicked bool, msg string) {
	defer func() {
		if r := recover(); r != nil {
			panicked = true
			msg = fmt.Sprint(r)
		}
	}()
	f()
	return
}
