package codec

import (
	"encoding/json"
	"os"
	"testing"
	"time"

	"github.com/vapourismo/knx-go/knx/cemi"
	"github.com/vapourismo/knx-go/knx/knxnet"
)

// outcome of one decode attempt
type decOut struct {
	Panic int    `json:"panic"`
	Hang  int    `json:"hang"`
	OK    int    `json:"ok"`
	N     int    `json:"n"`
	Val   string `json:"val"` // canonical JSON of the projected value ("" unless accepted)
}

type decRec struct {
	K     string `json:"k"`
	What  string `json:"what"` // knxnet | cemi
	Len   int    `json:"len"`
	B     []int  `json:"b"`
	Exact decOut `json:"exact"` // decoded from a slice of exactly the input's length and capacity
	ExtA  decOut `json:"exta"`  // as a prefix of a 2 KiB buffer filled with 0xAA
	ExtV  decOut `json:"extv"`  // as a prefix of a buffer holding a longer valid frame of the same kind
	Tag   string `json:"tag"`
}

// The decoded value is rendered only after the input buffer has been overwritten (fill): a socket receiver decodes every
// datagram from one reused buffer, so a value that keeps references into its input changes under the consumer's hands
// with the next datagram - the three variants of a record are overwritten with different bytes.
func decodeOnce(what string, data []byte, fill byte) decOut {
	res := make(chan decOut, 1)
	go func() {
		var o decOut
		p, _ := Guarded(func() {
			if what == "knxnet" {
				var s knxnet.Service
				n, err := knxnet.Unpack(data, &s)
				for i := range data {
					data[i] = fill + byte(i)
				}
				o.N = int(n)
				if err == nil {
					o.OK = 1
					b, _ := json.Marshal(project(s))
					o.Val = string(b)
				}
			} else {
				var m cemi.Message
				n, err := cemi.Unpack(data, &m)
				for i := range data {
					data[i] = fill + byte(i)
				}
				o.N = int(n)
				if err == nil {
					o.OK = 1
					b, _ := json.Marshal(cemiTo(m))
					o.Val = string(b)
				}
			}
		})
		o.Panic = B2i(p)
		if p {
			o.OK, o.N, o.Val = 0, 0, ""
		}
		res <- o
	}()
	select {
	case o := <-res:
		return o
	case <-time.After(3 * time.Second):
		return decOut{Hang: 1}
	}
}

func logDecode(o *Out, what string, b []byte, longer []byte, tag string) bool {
	exact := make([]byte, len(b), len(b))
	copy(exact, b)
	bufA := make([]byte, 2048)
	for i := range bufA {
		bufA[i] = 0xaa
	}
	copy(bufA, b)
	bufV := make([]byte, 2048)
	copy(bufV, longer)
	copy(bufV, b)
	r := decRec{K: "dec", What: what, Len: len(b), B: Ints(b), Tag: tag}
	r.Exact = decodeOnce(what, exact, 0xee)
	r.ExtA = decodeOnce(what, bufA[:len(b)], 0x11)
	r.ExtV = decodeOnce(what, bufV[:len(b)], 0x77)
	o.Rec(r)
	return r.Exact.Hang+r.ExtA.Hang+r.ExtV.Hang == 0
}

var alphabet = func(rem int) []int {
	return []int{0, 1, 2, 3, 4, 6, 8, rem - 1, rem, rem + 1, 54, 255}
}

// TestC01 feeds the decoders every truncation of valid frames, every frame whose octets are
// replaced by boundary values (embedded lengths disagreeing with the bytes present), zero-length
// description blocks and seeded mutations, each decoded from an exact-capacity slice and as a
// prefix of larger buffers.
func TestC01(t *testing.T) {
	o, err := Open("VERIF_OUT")
	if err != nil {
		t.Skip(err)
	}
	defer o.Close()
	rng := Rng()
	type base struct {
		what string
		b    []byte
		tag  string
	}
	var bases []base
	add := func(v SV, tag string) {
		p, _ := Guarded(func() {
			b := knxnet.AllocAndPack(v.service())
			bases = append(bases, base{"knxnet", b, tag})
			if v.Svc == 0x0420 || v.Svc == 0x0530 {
				off := 6
				if v.Svc == 0x0420 {
					off = 10
				}
				bases = append(bases, base{"cemi", b[off:], tag + "/cemi"})
			}
		})
		_ = p
	}
	for _, svc := range svcIDs {
		kinds := 1
		if svc == 0x0420 || svc == 0x0530 {
			kinds = 11
		}
		for k := 0; k < kinds; k++ {
			reps := 1
			if Thorough() {
				reps = 4
			}
			for i := 0; i < reps; i++ {
				v := genSV(rng, svc, k, false)
				// keep the frames short enough for exhaustive position x value mutation
				if len(v.Cemi.Info) > 3 {
					v.Cemi.Info = v.Cemi.Info[:3]
				}
				if len(v.Cemi.Data) > 4 {
					v.Cemi.Data = v.Cemi.Data[:4]
				}
				if len(v.Cemi.Raw) > 6 {
					v.Cemi.Raw = v.Cemi.Raw[:6]
				}
				if len(v.Fams.List) > 6 {
					v.Fams.List = v.Fams.List[:6]
				}
				add(v, "svc")
			}
		}
	}
	// frames the library cannot encode itself: routing busy / lost, unknown service, description with extra DIBs
	raw := func(svc int, body []byte) []byte {
		b := []byte{6, 0x10, byte(svc >> 8), byte(svc), byte((len(body) + 6) >> 8), byte(len(body) + 6)}
		return append(b, body...)
	}
	bases = append(bases, base{"knxnet", raw(0x0532, []byte{6, 0, 0, 100, 0, 1}), "busy"})
	bases = append(bases, base{"knxnet", raw(0x0531, []byte{4, 0, 0, 5}), "lost"})
	bases = append(bases, base{"knxnet", raw(0x0999, []byte{1, 2, 3}), "unknown"})
	dev := make([]byte, 54)
	dev[0], dev[1] = 54, 1
	copy(dev[24:], "device")
	for _, extra := range [][]byte{{}, {2, 2}, {4, 2, 4, 1}, {8, 3, 1, 2, 3, 4, 5, 6}, {4, 5, 9, 9}, {6, 0xfe, 1, 2, 3, 4}, {2, 9}, {3, 4, 1}, {5, 3, 1, 2, 3}, {0, 9}, {1, 9}, {0, 3}, {200, 9, 1}} {
		body := append(append([]byte{}, dev...), extra...)
		bases = append(bases, base{"knxnet", raw(0x0204, body), "dib"})
		bases = append(bases, base{"knxnet", raw(0x0204, append(append([]byte{}, extra...), dev...)), "dib"})
		bases = append(bases, base{"knxnet", raw(0x0202, append([]byte{8, 1, 1, 2, 3, 4, 0x0e, 0x57}, body...)), "dib"})
	}
	alive := true
	for _, bs := range bases {
		longer := append(append([]byte{}, bs.b...), bs.b...)
		// every truncation
		for l := 0; l <= len(bs.b) && alive; l++ {
			alive = logDecode(o, bs.what, bs.b[:l], longer, bs.tag+":trunc")
		}
		// every octet replaced by every boundary value, at full length and truncated around the position
		maxPos := len(bs.b)
		if !Thorough() && maxPos > 48 {
			maxPos = 48
		}
		for p := 0; p < maxPos && alive; p++ {
			for _, a := range alphabet(len(bs.b) - p) {
				if a < 0 || a > 255 {
					continue
				}
				m := append([]byte{}, bs.b...)
				if int(m[p]) == a {
					continue
				}
				m[p] = byte(a)
				alive = alive && logDecode(o, bs.what, m, longer, bs.tag+":mut")
				if Thorough() && p+2 < len(m) {
					alive = alive && logDecode(o, bs.what, m[:p+2], longer, bs.tag+":mut-trunc")
					alive = alive && logDecode(o, bs.what, m[:len(m)-1], longer, bs.tag+":mut-trunc")
				}
			}
		}
	}
	// seeded random byte strings of length 0..1024 under each service identifier and message code
	n := 300
	if Thorough() {
		n = 6000
	}
	ids := []int{0x0201, 0x0202, 0x0203, 0x0204, 0x0205, 0x0206, 0x0207, 0x0208, 0x0209, 0x020a, 0x0420, 0x0421, 0x0530, 0x0531, 0x0532}
	codes := []int{0x2b, 0x11, 0x29, 0x2e, 0x10, 0x2d, 0x2f}
	for i := 0; i < n && alive; i++ {
		l := rng.Intn(1025)
		if i%3 == 0 {
			l = rng.Intn(40)
		}
		b := make([]byte, l)
		rng.Read(b)
		if i%2 == 0 {
			svc := ids[rng.Intn(len(ids))]
			b = raw(svc, b)
			if rng.Intn(3) == 0 && len(b) >= 6 {
				b[4], b[5] = byte(rng.Intn(256)), byte(rng.Intn(256))
			}
			if len(b) > 1024 {
				b = b[:1024]
			}
			alive = logDecode(o, "knxnet", b, append(b, b...), "random")
		} else {
			b = append([]byte{byte(codes[rng.Intn(len(codes))])}, b...)
			if len(b) > 2 {
				b[1] = byte(pick(rng, 0, 1, 2, 255, rng.Intn(256)))
			}
			if len(b) > 1024 {
				b = b[:1024]
			}
			alive = logDecode(o, "cemi", b, append(b, b...), "random")
		}
	}
	t.Logf("%d records, %d bases", o.n, len(bases))
	if !alive {
		o.Close()
		// a decoder is spinning in a leaked goroutine: the records so far are what counts
		os.Exit(0)
	}
}
