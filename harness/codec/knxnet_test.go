package codec

import (
	"math/rand"
	"net"
	"testing"

	"github.com/vapourismo/knx-go/knx/cemi"
	"github.com/vapourismo/knx-go/knx/knxnet"
)

// CV is a cEMI message in the vocabulary of spec/Knxnet.tla: an L_Data frame or a raw message.
type CV struct {
	LF
	CK  string `json:"ck"` // ldata | raw | none
	Raw []int  `json:"raw"`
}

type DV struct {
	Type   int   `json:"type"`
	Medium int   `json:"medium"`
	Status int   `json:"status"`
	Src    int   `json:"src"`
	Proj   int   `json:"proj"`
	Serial []int `json:"serial"`
	Mcast  []int `json:"mcast"`
	Mac    []int `json:"mac"`
	Name   []int `json:"name"` // ISO 8859-1 code units
}

type FV struct {
	Type int   `json:"type"`
	List []int `json:"list"` // family, version, family, version ...
}

// SV is a KNXnet/IP service value; unused fields keep their defaults on both sides.
type SV struct {
	Svc   int   `json:"svc"`
	Ch    int   `json:"ch"`
	Seq   int   `json:"seq"`
	St    int   `json:"st"`
	Layer int   `json:"layer"`
	H1    []int `json:"h1"`
	H2    []int `json:"h2"`
	Cemi  CV    `json:"cemi"`
	Dev   DV    `json:"dev"`
	Fams  FV    `json:"fams"`
}

func zeroSV(svc int) SV {
	return SV{Svc: svc, H1: []int{0, 0, 0, 0, 0, 0}, H2: []int{0, 0, 0, 0, 0, 0},
		Cemi: CV{LF: LF{Kind: "none", Info: []int{}, Data: []int{}}, CK: "none", Raw: []int{}},
		Dev:  DV{Serial: []int{0, 0, 0, 0, 0, 0}, Mcast: []int{0, 0, 0, 0}, Mac: []int{0, 0, 0, 0, 0, 0}, Name: []int{}},
		Fams: FV{List: []int{}}}
}

func hostOf(h []int) knxnet.HostInfo {
	return knxnet.HostInfo{Protocol: knxnet.Protocol(h[0]), Address: knxnet.Address{byte(h[1]), byte(h[2]), byte(h[3]), byte(h[4])}, Port: knxnet.Port(h[5])}
}

func hostTo(h knxnet.HostInfo) []int {
	return []int{int(h.Protocol), int(h.Address[0]), int(h.Address[1]), int(h.Address[2]), int(h.Address[3]), int(h.Port)}
}

func (c CV) message() cemi.Message {
	if c.CK == "raw" {
		raw := bytesOf(c.Raw)
		switch c.Code {
		case 0x10:
			return &cemi.LRawReq{LRaw: raw}
		case 0x2d:
			return &cemi.LRawInd{LRaw: raw}
		case 0x2f:
			return &cemi.LRawCon{LRaw: raw}
		case 0x2b:
			m := cemi.LBusmonInd(raw)
			return &m
		default:
			return &cemi.UnsupportedMessage{Code: cemi.MessageCode(c.Code), Data: raw}
		}
	}
	return c.LF.message()
}

func cemiTo(m cemi.Message) CV {
	c := CV{LF: LF{Kind: "none", Info: []int{}, Data: []int{}}, CK: "none", Raw: []int{}}
	if m == nil {
		return c
	}
	if f, ok := fieldsOf(m); ok {
		c.LF = f
		c.CK = "ldata"
		return c
	}
	c.Code = int(m.MessageCode())
	c.CK = "raw"
	switch m := m.(type) {
	case *cemi.LRawReq:
		c.Raw = Ints(m.LRaw)
	case *cemi.LRawInd:
		c.Raw = Ints(m.LRaw)
	case *cemi.LRawCon:
		c.Raw = Ints(m.LRaw)
	case *cemi.LBusmonInd:
		c.Raw = Ints(*m)
	case *cemi.UnsupportedMessage:
		c.Raw = Ints(m.Data)
	}
	return c
}

func latin1(cs []int) string {
	r := make([]rune, len(cs))
	for i, c := range cs {
		r[i] = rune(c)
	}
	return string(r)
}

func unlatin1(s string) []int {
	var r []int
	for _, c := range s {
		r = append(r, int(c))
	}
	if r == nil {
		r = []int{}
	}
	return r
}

func (d DV) dib() knxnet.DeviceInformationBlock {
	var ser knxnet.DeviceSerialNumber
	copy(ser[:], bytesOf(d.Serial))
	return knxnet.DeviceInformationBlock{Type: knxnet.DescriptionType(d.Type), Medium: knxnet.KNXMedium(d.Medium), Status: knxnet.DeviceStatus(d.Status),
		Source: cemi.IndividualAddr(d.Src), ProjectIdentifier: knxnet.ProjectInstallationIdentifier(d.Proj), SerialNumber: ser,
		RoutingMulticastAddress: knxnet.Address{byte(d.Mcast[0]), byte(d.Mcast[1]), byte(d.Mcast[2]), byte(d.Mcast[3])},
		HardwareAddr:            net.HardwareAddr(bytesOf(d.Mac)), FriendlyName: latin1(d.Name)}
}

func devTo(d knxnet.DeviceInformationBlock) DV {
	mac := Ints(d.HardwareAddr)
	for len(mac) < 6 {
		mac = append(mac, 0)
	}
	return DV{Type: int(d.Type), Medium: int(d.Medium), Status: int(d.Status), Src: int(d.Source), Proj: int(d.ProjectIdentifier),
		Serial: Ints(d.SerialNumber[:]), Mcast: Ints(d.RoutingMulticastAddress[:]), Mac: mac, Name: unlatin1(d.FriendlyName)}
}

func (f FV) dib() knxnet.SupportedServicesDIB {
	s := knxnet.SupportedServicesDIB{Type: knxnet.DescriptionType(f.Type)}
	for i := 0; i+1 < len(f.List); i += 2 {
		s.Families = append(s.Families, knxnet.ServiceFamily{Type: knxnet.ServiceFamilyType(f.List[i]), Version: uint8(f.List[i+1])})
	}
	return s
}

func famsTo(s knxnet.SupportedServicesDIB) FV {
	f := FV{Type: int(s.Type), List: []int{}}
	for _, x := range s.Families {
		f.List = append(f.List, int(x.Type), int(x.Version))
	}
	return f
}

// service builds the Go value for v.
func (v SV) service() knxnet.ServicePackable {
	switch v.Svc {
	case 0x0205:
		return &knxnet.ConnReq{Control: hostOf(v.H1), Tunnel: hostOf(v.H2), Layer: knxnet.TunnelLayer(v.Layer)}
	case 0x0206:
		return &knxnet.ConnRes{Channel: uint8(v.Ch), Status: knxnet.ErrCode(v.St), Control: hostOf(v.H1)}
	case 0x0207:
		return &knxnet.ConnStateReq{Channel: uint8(v.Ch), Status: knxnet.ErrCode(v.St), Control: hostOf(v.H1)}
	case 0x0208:
		return &knxnet.ConnStateRes{Channel: uint8(v.Ch), Status: knxnet.ErrCode(v.St)}
	case 0x0209:
		return &knxnet.DiscReq{Channel: uint8(v.Ch), Status: uint8(v.St), Control: hostOf(v.H1)}
	case 0x020a:
		return &knxnet.DiscRes{Channel: uint8(v.Ch), Status: uint8(v.St)}
	case 0x0420:
		return &knxnet.TunnelReq{Channel: uint8(v.Ch), SeqNumber: uint8(v.Seq), Payload: v.Cemi.message()}
	case 0x0421:
		return &knxnet.TunnelRes{Channel: uint8(v.Ch), SeqNumber: uint8(v.Seq), Status: knxnet.ErrCode(v.St)}
	case 0x0530:
		return &knxnet.RoutingInd{Payload: v.Cemi.message()}
	case 0x0201:
		return &knxnet.SearchReq{HostInfo: hostOf(v.H1)}
	case 0x0203:
		return &knxnet.DescriptionReq{HostInfo: hostOf(v.H1)}
	case 0x0202:
		return &knxnet.SearchRes{Control: hostOf(v.H1), DescriptionB: knxnet.DescriptionBlock{DeviceHardware: v.Dev.dib(), SupportedServices: v.Fams.dib()}}
	case 0x0204:
		r := knxnet.DescriptionRes(knxnet.DescriptionBlock{DeviceHardware: v.Dev.dib(), SupportedServices: v.Fams.dib()})
		return &r
	}
	return nil
}

// project maps a decoded service back onto the vocabulary.
func project(s knxnet.Service) SV {
	if s == nil {
		return zeroSV(-1)
	}
	v := zeroSV(int(s.Service()))
	switch s := s.(type) {
	case *knxnet.ConnReq:
		v.H1, v.H2, v.Layer = hostTo(s.Control), hostTo(s.Tunnel), int(s.Layer)
	case *knxnet.ConnRes:
		v.Ch, v.St, v.H1 = int(s.Channel), int(s.Status), hostTo(s.Control)
	case *knxnet.ConnStateReq:
		v.Ch, v.St, v.H1 = int(s.Channel), int(s.Status), hostTo(s.Control)
	case *knxnet.ConnStateRes:
		v.Ch, v.St = int(s.Channel), int(s.Status)
	case *knxnet.DiscReq:
		v.Ch, v.St, v.H1 = int(s.Channel), int(s.Status), hostTo(s.Control)
	case *knxnet.DiscRes:
		v.Ch, v.St = int(s.Channel), int(s.Status)
	case *knxnet.TunnelReq:
		v.Ch, v.Seq, v.Cemi = int(s.Channel), int(s.SeqNumber), cemiTo(s.Payload)
	case *knxnet.TunnelRes:
		v.Ch, v.Seq, v.St = int(s.Channel), int(s.SeqNumber), int(s.Status)
	case *knxnet.RoutingInd:
		v.Cemi = cemiTo(s.Payload)
	case *knxnet.SearchReq:
		v.H1 = hostTo(s.HostInfo)
	case *knxnet.DescriptionReq:
		v.H1 = hostTo(s.HostInfo)
	case *knxnet.SearchRes:
		v.H1, v.Dev, v.Fams = hostTo(s.Control), devTo(s.DescriptionB.DeviceHardware), famsTo(s.DescriptionB.SupportedServices)
	case *knxnet.DescriptionRes:
		v.Dev, v.Fams = devTo(s.DeviceHardware), famsTo(s.SupportedServices)
	default:
		v.Svc = -2
	}
	return v
}

type svcRec struct {
	K     string `json:"k"`
	V     SV     `json:"v"`
	Size  int    `json:"size"`
	GB    []int  `json:"gb"`  // packed into a zero-filled buffer of the reported size (+ guard)
	FF    []int  `json:"ff"`  // packed into a 0xFF-filled buffer
	RND   []int  `json:"rnd"` // packed into a buffer of seeded random bytes
	BIG   []int  `json:"big"` // first Size bytes after packing into a slice LONGER than the reported size
	Guard int    `json:"guard"`
	Panic int    `json:"panic"`
	PMsg  string `json:"pmsg"`
	GD    SV     `json:"gd"` // decoded from GB
	GOK   int    `json:"gok"`
	GN    int    `json:"gn"`
	GD2   SV     `json:"gd2"` // decode(encode(GD))
	G2OK  int    `json:"g2ok"`
}

const guardLen = 32

func packInto(srv knxnet.ServicePackable, size int, fill func(i int) byte) ([]byte, bool) {
	buf := make([]byte, size+guardLen)
	for i := range buf {
		buf[i] = fill(i)
	}
	knxnet.Pack(buf[:size:size+guardLen], srv)
	ok := true
	for i := size; i < len(buf); i++ {
		if buf[i] != fill(i) {
			ok = false
		}
	}
	return buf[:size], ok
}

func logSvc(o *Out, v SV, rng *rand.Rand) {
	r := svcRec{K: "svc", V: v, GB: []int{}, FF: []int{}, RND: []int{}, BIG: []int{}, GD: zeroSV(-1), GD2: zeroSV(-1), Guard: 1}
	seedBytes := make([]byte, 4096)
	rng.Read(seedBytes)
	p, msg := Guarded(func() {
		srv := v.service()
		r.Size = int(knxnet.Size(srv))
		gb, g1 := packInto(srv, r.Size, func(int) byte { return 0 })
		ff, g2 := packInto(srv, r.Size, func(int) byte { return 0xff })
		rn, g3 := packInto(srv, r.Size, func(i int) byte { return seedBytes[i%len(seedBytes)] })
		big := make([]byte, r.Size+guardLen)
		for i := range big {
			big[i] = 0x5a
		}
		knxnet.Pack(big, srv)
		g4 := true
		for i := r.Size; i < len(big); i++ {
			if big[i] != 0x5a {
				g4 = false
			}
		}
		r.BIG = Ints(big[:r.Size])
		r.GB, r.FF, r.RND, r.Guard = Ints(gb), Ints(ff), Ints(rn), B2i(g1 && g2 && g3 && g4)
		// decoded from a scratch copy that is overwritten right after the call: a decoded value must not keep references
		// into its input (the socket receivers decode every datagram from one reused buffer)
		in := append([]byte(nil), gb...)
		var out knxnet.Service
		n, err := knxnet.Unpack(in, &out)
		for i := range in {
			in[i] = 0xEE
		}
		r.GN = int(n)
		if err == nil {
			r.GD, r.GOK = project(out), 1
			if sp := r.GD.service(); sp != nil {
				b2 := knxnet.AllocAndPack(sp)
				var out2 knxnet.Service
				if _, err := knxnet.Unpack(b2, &out2); err == nil {
					r.GD2, r.G2OK = project(out2), 1
				}
			}
		}
	})
	r.Panic, r.PMsg = B2i(p), msg
	o.Rec(r)
}

var svcIDs = []int{0x0205, 0x0206, 0x0207, 0x0208, 0x0209, 0x020a, 0x0420, 0x0421, 0x0530, 0x0201, 0x0203, 0x0202, 0x0204}

func rbytes(rng *rand.Rand, n int) []int {
	r := make([]int, n)
	for i := range r {
		r[i] = rng.Intn(256)
	}
	return r
}

func pick(rng *rand.Rand, xs ...int) int { return xs[rng.Intn(len(xs))] }

// genCemi produces one of the nine payload kinds; oversize = also values beyond the field limits.
func genCemi(rng *rand.Rand, kind int, oversize bool) CV {
	c := CV{LF: LF{Kind: "none", Info: []int{}, Data: []int{}}, CK: "none", Raw: []int{}}
	b8 := func() int { return pick(rng, 0, 1, 127, 128, 255, rng.Intn(256)) }
	b16 := func() int { return pick(rng, 0, 1, 0x1234, 0xffff, rng.Intn(65536)) }
	switch {
	case kind < 6: // L_Data req/con/ind x app/control
		c.Code = []int{0x11, 0x2e, 0x29}[kind%3]
		c.C1, c.C2, c.Src, c.Dst = b8(), b8(), b16(), b16()
		c.Info = rbytes(rng, pick(rng, 0, 0, 1, 2, 255, rng.Intn(256)))
		c.Numbered, c.Seqn = rng.Intn(2), pick(rng, 0, 15, rng.Intn(16))
		if c.Numbered == 0 {
			c.Seqn = 0
		}
		c.CK = "ldata"
		if kind < 3 {
			c.Kind = "app"
			c.Cmd = rng.Intn(16)
			c.Data = rbytes(rng, pick(rng, 1, 2, 15, 16, 254, 1+rng.Intn(254)))
			c.Data[0] = pick(rng, 0, 63, rng.Intn(64))
		} else {
			c.Kind = "ctl"
			c.Cmd = rng.Intn(4)
		}
		if oversize {
			if rng.Intn(2) == 0 {
				c.Info = rbytes(rng, pick(rng, 256, 257, 600))
			} else if c.Kind == "app" {
				c.Data = rbytes(rng, pick(rng, 0, 256, 257, 600))
			}
		}
	default:
		c.CK = "raw"
		c.Code = []int{0x10, 0x2f, 0x2d, 0x2b, pick(rng, 0x13, 0x25, 0x00, 0xff, 0x12)}[kind-6]
		c.Raw = rbytes(rng, pick(rng, 0, 1, 2, 30, rng.Intn(300)))
	}
	return c
}

func genHost(rng *rand.Rand) []int {
	return []int{pick(rng, 1, 2, 0, 255), rng.Intn(256), rng.Intn(256), rng.Intn(256), rng.Intn(256), pick(rng, 0, 1, 3671, 65535, rng.Intn(65536))}
}

func genName(rng *rand.Rand, n int, latinOnly bool) []int {
	r := make([]int, n)
	for i := range r {
		r[i] = pick(rng, 'A', 'z', ' ', 0xe4, 0xff, 0x7f, 1+rng.Intn(255))
		if !latinOnly && rng.Intn(6) == 0 {
			r[i] = pick(rng, 0x100, 0x20ac, 0x1f600)
		}
	}
	if n > 0 && r[n-1] == 0 {
		r[n-1] = 'x'
	}
	return r
}

func genSV(rng *rand.Rand, svc, ckind int, oversize bool) SV {
	v := zeroSV(svc)
	b8 := func() int { return pick(rng, 0, 1, 127, 128, 255, rng.Intn(256)) }
	switch svc {
	case 0x0205:
		v.H1, v.H2, v.Layer = genHost(rng), genHost(rng), pick(rng, 2, 4, 0x80, rng.Intn(256))
	case 0x0206:
		v.Ch, v.St = b8(), pick(rng, 0, 0, 0x22, 0x24, 0x25, 1+rng.Intn(255))
		if v.St == 0 {
			v.H1 = genHost(rng)
		}
	case 0x0207, 0x0209:
		v.Ch, v.St, v.H1 = b8(), b8(), genHost(rng)
	case 0x0208, 0x020a:
		v.Ch, v.St = b8(), b8()
	case 0x0420:
		v.Ch, v.Seq, v.Cemi = b8(), b8(), genCemi(rng, ckind, oversize)
	case 0x0421:
		v.Ch, v.Seq, v.St = b8(), b8(), b8()
	case 0x0530:
		v.Cemi = genCemi(rng, ckind, oversize)
	case 0x0201, 0x0203:
		v.H1 = genHost(rng)
	case 0x0202, 0x0204:
		if svc == 0x0202 {
			v.H1 = genHost(rng)
		}
		n := pick(rng, 0, 1, 29, rng.Intn(30))
		latin := true
		if oversize {
			n = pick(rng, 30, 31, 80, 29)
			latin = rng.Intn(3) != 0
		}
		v.Dev = DV{Type: 1, Medium: pick(rng, 2, 4, 0x10, 0x20), Status: rng.Intn(2), Src: rng.Intn(65536), Proj: rng.Intn(65536),
			Serial: rbytes(rng, 6), Mcast: rbytes(rng, 4), Mac: rbytes(rng, 6), Name: genName(rng, n, latin)}
		nf := pick(rng, 0, 1, 20, rng.Intn(21))
		v.Fams = FV{Type: 2, List: []int{}}
		for i := 0; i < nf; i++ {
			v.Fams.List = append(v.Fams.List, pick(rng, 2, 3, 4, 5, 6, 7, 8, rng.Intn(256)), rng.Intn(256))
		}
	}
	return v
}

// TestC02 logs round-trip records for every service type x every cEMI payload kind over boundary and seeded values.
func TestC02(t *testing.T) {
	o, err := Open("VERIF_OUT")
	if err != nil {
		t.Skip(err)
	}
	defer o.Close()
	rng := Rng()
	n := 240
	if Thorough() {
		n = 3000
	}
	for _, svc := range svcIDs {
		kinds := 1
		if svc == 0x0420 || svc == 0x0530 {
			kinds = 11
		}
		for k := 0; k < kinds; k++ {
			for i := 0; i < n; i++ {
				v := genSV(rng, svc, k, false)
				logSvc(o, v, rng)
				// accepted but non-canonical byte strings of the same type: trailing bytes (e.g. an endpoint
				// after a refused connect response), with the header's total length adjusted
				if i%4 == 0 {
					if pb, _ := Guarded(func() {
						b := knxnet.AllocAndPack(v.service())
						for _, extra := range [][]byte{{8, 1, 10, 0, 0, 7, 0x0e, 0x57}, {0}, {4, 4, 2, 0}, bytesOf(rbytes(rng, 1+rng.Intn(12)))} {
							m := append(append([]byte{}, b...), extra...)
							m[4], m[5] = byte(len(m)>>8), byte(len(m))
							logStable(o, m)
						}
					}); pb {
						continue
					}
				}
			}
		}
	}
	t.Logf("%d records", o.n)
}

type stabRec struct {
	K   string `json:"k"`
	B   []int  `json:"b"`
	OK1 int    `json:"ok1"`
	V1  SV     `json:"v1"`
	OK2 int    `json:"ok2"`
	V2  SV     `json:"v2"`
	Pan int    `json:"panic"`
}

// logStable decodes an arbitrary (possibly non-canonical) byte string; if it is accepted as an encodable
// type, the result is re-encoded and decoded again.
func logStable(o *Out, b []byte) {
	r := stabRec{K: "stab", B: Ints(b), V1: zeroSV(-1), V2: zeroSV(-1)}
	p, _ := Guarded(func() {
		var s1 knxnet.Service
		in := append([]byte(nil), b...)
		_, err := knxnet.Unpack(in, &s1)
		for i := range in {
			in[i] = 0xEE
		}
		if err != nil {
			return
		}
		v1 := project(s1)
		sp := v1.service()
		if sp == nil {
			return // not an encodable type
		}
		r.OK1, r.V1 = 1, v1
		b2 := knxnet.AllocAndPack(sp)
		var s2 knxnet.Service
		if _, err := knxnet.Unpack(b2, &s2); err == nil {
			r.OK2, r.V2 = 1, project(s2)
		}
	})
	r.Pan = B2i(p)
	o.Rec(r)
}

// TestC15 additionally feeds oversize variable parts.
func TestC15(t *testing.T) {
	o, err := Open("VERIF_OUT")
	if err != nil {
		t.Skip(err)
	}
	defer o.Close()
	rng := Rng()
	n := 160
	if Thorough() {
		n = 2000
	}
	for _, svc := range svcIDs {
		kinds := 1
		if svc == 0x0420 || svc == 0x0530 {
			kinds = 11
		}
		for k := 0; k < kinds; k++ {
			for i := 0; i < n; i++ {
				logSvc(o, genSV(rng, svc, k, i%2 == 1), rng)
			}
		}
	}
	t.Logf("%d records", o.n)
}
