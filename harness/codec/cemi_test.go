package codec

import (
	"testing"

	"github.com/vapourismo/knx-go/knx/cemi"
)

// LF is an L_Data frame value in the vocabulary of spec/Cemi.tla.
type LF struct {
	Code     int    `json:"code"`
	Info     []int  `json:"info"`
	C1       int    `json:"c1"`
	C2       int    `json:"c2"`
	Src      int    `json:"src"`
	Dst      int    `json:"dst"`
	Kind     string `json:"kind"`
	Numbered int    `json:"numbered"`
	Seqn     int    `json:"seqn"`
	Cmd      int    `json:"cmd"`
	Data     []int  `json:"data"`
}

func bytesOf(x []int) []byte {
	b := make([]byte, len(x))
	for i, v := range x {
		b[i] = byte(v)
	}
	return b
}

func (f LF) message() cemi.Message {
	ld := cemi.LData{Info: cemi.Info(bytesOf(f.Info)), Control1: cemi.ControlField1(f.C1), Control2: cemi.ControlField2(f.C2),
		Source: cemi.IndividualAddr(f.Src), Destination: uint16(f.Dst)}
	if len(f.Info) == 0 {
		ld.Info = nil
	}
	if f.Kind == "app" {
		ld.Data = &cemi.AppData{Numbered: f.Numbered == 1, SeqNumber: uint8(f.Seqn), Command: cemi.APCI(f.Cmd), Data: bytesOf(f.Data)}
	} else {
		ld.Data = &cemi.ControlData{Numbered: f.Numbered == 1, SeqNumber: uint8(f.Seqn), Command: uint8(f.Cmd)}
	}
	switch f.Code {
	case 0x11:
		return &cemi.LDataReq{LData: ld}
	case 0x29:
		return &cemi.LDataInd{LData: ld}
	default:
		return &cemi.LDataCon{LData: ld}
	}
}

// fieldsOf projects a decoded message back onto the vocabulary.
func fieldsOf(m cemi.Message) (LF, bool) {
	var ld *cemi.LData
	switch m := m.(type) {
	case *cemi.LDataReq:
		ld = &m.LData
	case *cemi.LDataInd:
		ld = &m.LData
	case *cemi.LDataCon:
		ld = &m.LData
	default:
		return LF{Info: []int{}, Data: []int{}}, false
	}
	f := LF{Code: int(m.MessageCode()), Info: Ints(ld.Info), C1: int(ld.Control1), C2: int(ld.Control2), Src: int(ld.Source), Dst: int(ld.Destination), Data: []int{}}
	switch d := ld.Data.(type) {
	case *cemi.AppData:
		f.Kind, f.Numbered, f.Seqn, f.Cmd, f.Data = "app", B2i(d.Numbered), int(d.SeqNumber), int(d.Command), Ints(d.Data)
	case *cemi.ControlData:
		f.Kind, f.Numbered, f.Seqn, f.Cmd = "ctl", B2i(d.Numbered), int(d.SeqNumber), int(d.Command)
	default:
		return f, false
	}
	return f, true
}

type ldataRec struct {
	K     string `json:"k"`
	F     LF     `json:"f"`
	GB    []int  `json:"gb"`    // bytes written by cemi.Pack into a zeroed buffer of the reported size
	Size  int    `json:"size"`  // cemi.Size
	Panic int    `json:"panic"` // the encoder or decoder panicked
	GD    LF     `json:"gd"`    // fields decoded by cemi.Unpack from GB
	GDU   LF     `json:"gdu"`   // the same bytes decoded into a receiver that already held an earlier frame (= gd when that was not done)
	GOK   int    `json:"gok"`   // decoder accepted
	GN    int    `json:"gn"`    // consumed length
}

// dirtyLData is decoded into again and again (never reset).
var dirtyLData cemi.LData

func logLData(o *Out, f LF) {
	r := ldataRec{K: "ldata", F: f, GB: []int{}, GD: LF{Info: []int{}, Data: []int{}}, GDU: LF{Info: []int{}, Data: []int{}}}
	p, _ := Guarded(func() {
		m := f.message()
		r.Size = int(cemi.Size(m))
		buf := make([]byte, r.Size)
		cemi.Pack(buf, m)
		r.GB = Ints(buf)
		// decoded from a scratch copy that is overwritten right after the call (a decoder must not keep references into
		// its input: receive buffers are reused) ...
		in := append([]byte(nil), buf...)
		var out cemi.Message
		n, err := cemi.Unpack(in, &out)
		for i := range in {
			in[i] = 0xEE
		}
		r.GN = int(n)
		if err == nil {
			if g, ok := fieldsOf(out); ok {
				r.GD, r.GDU, r.GOK = g, g, 1
			}
		}
		// ... and once more into a receiver that already holds the previously decoded frame (a reused value must end
		// up exactly as a fresh one): logged as gdu, the judge wants gdu = gd
		if err == nil && r.GOK == 1 && len(buf) > 1 {
			in2 := append([]byte(nil), buf[1:]...)
			if _, e2 := dirtyLData.Unpack(in2); e2 == nil {
				var m2 cemi.Message
				switch buf[0] {
				case 0x11:
					m2 = &cemi.LDataReq{LData: dirtyLData}
				case 0x29:
					m2 = &cemi.LDataInd{LData: dirtyLData}
				default:
					m2 = &cemi.LDataCon{LData: dirtyLData}
				}
				for i := range in2 {
					in2[i] = 0x77
				}
				if g2, ok := fieldsOf(m2); ok {
					r.GDU = g2
				}
			}
		}
	})
	r.Panic = B2i(p)
	o.Rec(r)
}

type helperRec struct {
	K  string `json:"k"`
	Fn string `json:"fn"`
	X  int    `json:"x"`
	Y  int    `json:"y"`
}

// TestC11 enumerates the L_Data domain of property C11 and logs one record per frame value.
func TestC11(t *testing.T) {
	o, err := Open("VERIF_OUT")
	if err != nil {
		t.Skip(err)
	}
	defer o.Close()
	rng := Rng()
	base := LF{Code: 0x11, Info: []int{}, C1: 0xbc, C2: 0xe0, Src: 0x1107, Dst: 0x0a03, Kind: "app", Cmd: 2, Data: []int{1}}
	// all 2^16 combinations of the two control octets, application and control units
	for c1 := 0; c1 < 256; c1++ {
		for c2 := 0; c2 < 256; c2++ {
			f := base
			f.C1, f.C2 = c1, c2
			f.Code = []int{0x11, 0x29, 0x2e}[(c1+c2)%3]
			logLData(o, f)
			g := f
			g.Kind, g.Cmd, g.Data = "ctl", (c1+c2)%4, []int{}
			g.Numbered, g.Seqn = c2%2, c1%16
			logLData(o, g)
		}
	}
	// all APCI x sequence x numbered x unit kind x first data byte
	for cmd := 0; cmd < 16; cmd++ {
		for seq := 0; seq < 16; seq++ {
			for num := 0; num < 2; num++ {
				for _, fb := range []int{0, 1, 62, 63, 64, 65, 127, 128, 191, 192, 255} {
					f := base
					f.Cmd, f.Seqn, f.Numbered, f.Data = cmd, seq, num, []int{fb}
					logLData(o, f)
					f.Data = []int{fb, 0xff, 0x80}
					logLData(o, f)
				}
				g := base
				g.Kind, g.Cmd, g.Seqn, g.Numbered, g.Data = "ctl", cmd%4, seq, num, []int{}
				logLData(o, g)
			}
		}
	}
	// payload lengths 0..254 (0 = the documented single zero byte), info lengths 0..255
	for n := 0; n <= 254; n++ {
		f := base
		f.Data = make([]int, n)
		for i := range f.Data {
			f.Data[i] = rng.Intn(256)
		}
		if n > 0 {
			f.Data[0] %= 64
		}
		f.Code = 0x29
		logLData(o, f)
	}
	for pass := 0; pass < 2; pass++ { // ascending, then descending (a reused receiver sees longer blocks before shorter ones)
		for k := 0; k <= 255; k++ {
			n := k
			if pass == 1 {
				n = 255 - k
			}
			f := base
			f.Info = make([]int, n)
			for i := range f.Info {
				f.Info[i] = rng.Intn(256)
			}
			logLData(o, f)
		}
	}
	// corner and seeded addresses
	addrs := []int{0, 1, 0xff, 0x100, 0x0fff, 0x1000, 0x7fff, 0x8000, 0xfffe, 0xffff, 0x1234, 0xabcd}
	for i := 0; i < 64; i++ {
		addrs = append(addrs, rng.Intn(65536))
	}
	for _, a := range addrs {
		for _, b := range []int{0, 0xffff, 0x1234, a} {
			f := base
			f.Src, f.Dst = a, b
			logLData(o, f)
		}
	}
	// helper functions over their complete 8-bit domains
	for x := 0; x < 256; x++ {
		o.Rec(helperRec{"helper", "Hops", x, int(cemi.ControlField2(x).Hops())})
		o.Rec(helperRec{"helper", "Control2Hops", x, int(cemi.Control2Hops(uint8(x)))})
		o.Rec(helperRec{"helper", "HopsOfControl2Hops", x, int(cemi.Control2Hops(uint8(x)).Hops())})
		o.Rec(helperRec{"helper", "IsGroupAddr", x, B2i(cemi.ControlField2(x).IsGroupAddr())})
		o.Rec(helperRec{"helper", "Control1Prio", x, int(cemi.Control1Prio(cemi.Priority(x)))})
		o.Rec(helperRec{"helper", "IsGroupCommand", x, B2i(cemi.APCI(x).IsGroupCommand())})
	}
	t.Logf("%d records", o.n)
}
