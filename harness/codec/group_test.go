//go:build verif

package codec

import (
	"reflect"
	"sync"
	"testing"
	"time"

	"github.com/vapourismo/knx-go/knx"
	"github.com/vapourismo/knx-go/knx/cemi"
	"github.com/vapourismo/knx-go/knx/knxnet"

	"verif/harness/sim"
)

type GE struct {
	Cmd  int   `json:"cmd"`
	Src  int   `json:"src"`
	Dst  int   `json:"dst"`
	Data []int `json:"data"`
}

type groupRec struct {
	K      string `json:"k"`
	Op     string `json:"op"`  // out | in | e2e | close
	Via    string `json:"via"` // router | tunnel
	Ev     GE     `json:"ev"`
	Frames int    `json:"frames"`
	F      CV     `json:"f"`   // the frame emitted (decoded by the real decoder from the captured datagram)
	Svc    int    `json:"svc"` // service that carried it
	Msg    CV     `json:"msg"` // inbound message injected
	Got    int    `json:"got"`
	GEv    GE     `json:"gev"`
	Err    int    `json:"err"`
}

func noGE() GE { return GE{Data: []int{}} }

func geTo(ev knx.GroupEvent) GE {
	return GE{Cmd: int(ev.Command), Src: int(ev.Source), Dst: int(ev.Destination), Data: Ints(ev.Data)}
}

func (g GE) event() knx.GroupEvent {
	return knx.GroupEvent{Command: knx.GroupCommand(g.Cmd), Source: cemi.IndividualAddr(g.Src), Destination: cemi.GroupAddr(g.Dst), Data: bytesOf(g.Data)}
}

// groupClient is a group tunnel or group router on an in-memory socket with capture of what it transmits.
type groupClient struct {
	via  string
	sock *sim.MemSock
	send func(knx.GroupEvent) error
	in   <-chan knx.GroupEvent
	stop func()
	mu   sync.Mutex
	sent []sim.Frame
}

func newGroupClient(t *testing.T, via string, rec *sim.Recorder) *groupClient {
	return newGroupClientCfg(t, via, rec, 0)
}

// hold: the router's post-send pause / the delay before the simulated gateway acknowledges a tunnelling request
func newGroupClientCfg(t *testing.T, via string, rec *sim.Recorder, hold time.Duration) *groupClient {
	c := &groupClient{via: via}
	c.sock = sim.NewMemSock(rec, false, 20*time.Microsecond)
	c.sock.OnTx = func(f sim.Frame) {
		switch f.Svc {
		case "ConnReq":
			c.sock.Arrive(sim.Build(&knxnet.ConnRes{Channel: 9, Status: 0}))
		case "TunnelReq":
			c.mu.Lock()
			c.sent = append(c.sent, f)
			c.mu.Unlock()
			ack := sim.Build(&knxnet.TunnelRes{Channel: uint8(f.Ch), SeqNumber: uint8(f.Seq), Status: 0})
			if hold > 0 {
				time.AfterFunc(hold, func() { c.sock.Arrive(ack) })
			} else {
				c.sock.Arrive(ack)
			}
		case "RoutingInd":
			c.mu.Lock()
			c.sent = append(c.sent, f)
			c.mu.Unlock()
		}
	}
	if via == "router" {
		gr := knx.NewGroupRouterOnSocket(c.sock, knx.RouterConfig{PostSendPauseDuration: hold})
		c.send, c.in, c.stop = gr.Send, gr.Inbound(), gr.Close
	} else {
		gt, err := knx.NewGroupTunnelOnSocket(c.sock, knx.TunnelConfig{ResendInterval: 50 * time.Millisecond, ResponseTimeout: time.Second, HeartbeatInterval: time.Hour})
		if err != nil {
			t.Fatal(err)
		}
		c.send, c.in, c.stop = gt.Send, gt.Inbound(), gt.Close
	}
	return c
}

func (c *groupClient) take() []sim.Frame {
	c.mu.Lock()
	defer c.mu.Unlock()
	s := c.sent
	c.sent = nil
	return s
}

// inject delivers a cEMI message to the client and reports what surfaces on the group channel.
var injSeq = map[*groupClient]int{}
var sentinelLost = map[*groupClient]int{}

// sentinel is a group write that every group client surfaces; it follows each injected frame, so that "the frame produced
// no event" is decided by what arrives (the sentinel first) and not by a clock: the clients deliver in arrival order.
var sentinel = knx.GroupEvent{Command: knx.GroupWrite, Source: 0xfffd, Destination: 0xfffe, Data: []byte{0x00, 0xa5, 0x5a, 0xc3, 0x3c, 0x96}}

func isSentinel(ev knx.GroupEvent) bool {
	return reflect.DeepEqual(ev.Data, sentinel.Data) // (by its payload alone: a defect may mangle the other fields on the way)
}

func (c *groupClient) arrive(m cemi.Message) {
	if c.via == "router" {
		c.sock.Arrive(sim.Build(&knxnet.RoutingInd{Payload: m}))
	} else {
		c.sock.Arrive(sim.Build(&knxnet.TunnelReq{Channel: 9, SeqNumber: uint8(injSeq[c]), Payload: m}))
		injSeq[c]++
	}
}

func (c *groupClient) inject(m cemi.Message) (GE, int) {
	c.arrive(m)
	c.arrive(&cemi.LDataInd{LData: cemi.LData{Control1: 0xbc, Control2: 0xe0, Source: sentinel.Source, Destination: uint16(sentinel.Destination),
		Data: &cemi.AppData{Command: cemi.GroupValueWrite, Data: sentinel.Data}}})
	wait := 3 * time.Second
	if sentinelLost[c] > 0 {
		wait = 5 * time.Millisecond
	}
	got, n := noGE(), 0 // n = number of events the frame produced (the judge wants 0 or 1; the first is compared)
	for {
		select {
		case ev, ok := <-c.in:
			if !ok || isSentinel(ev) {
				return got, n
			}
			if n == 0 {
				got = geTo(ev)
			}
			n++
		case <-time.After(wait):
			sentinelLost[c]++ // (the sentinel itself got lost or came back unrecognisable: from now on a short clock decides)
			return got, n
		}
	}
}

func cvOf(f sim.Frame) CV {
	switch s := f.Srv.(type) {
	case *knxnet.TunnelReq:
		return cemiTo(s.Payload)
	case *knxnet.RoutingInd:
		return cemiTo(s.Payload)
	}
	return cemiTo(nil)
}

func svcOf(f sim.Frame) int {
	if f.Srv == nil {
		return -1
	}
	return int(f.Srv.Service())
}

func TestC12(t *testing.T) {
	o, err := Open("VERIF_OUT")
	if err != nil {
		t.Skip(err)
	}
	defer o.Close()
	rng := Rng()
	rec := sim.NewRecorder(discard{}, false)
	rec.Begin()
	for _, via := range []string{"router", "tunnel"} {
		a := newGroupClient(t, via, rec)
		b := newGroupClient(t, via, rec)
		// ---- outbound and end-to-end
		lens := []int{}
		for l := 0; l <= 254; l++ {
			lens = append(lens, l)
		}
		nrand := 200
		if Thorough() {
			nrand = 4000
		}
		for i := 0; i < len(lens)+nrand; i++ {
			l := rng.Intn(30)
			if i < len(lens) {
				l = lens[i]
			}
			ev := GE{Cmd: rng.Intn(3), Src: pick(rng, 0, 1, 0xffff, rng.Intn(65536)), Dst: pick(rng, 0, 1, 0xffff, rng.Intn(65536)), Data: rbytes(rng, l)}
			if l > 0 {
				ev.Data[0] = pick(rng, 0, 1, 63, 64, 65, 128, 255, rng.Intn(256))
			}
			r := groupRec{K: "group", Op: "out", Via: via, Ev: ev, F: cemiTo(nil), Msg: cemiTo(nil), GEv: noGE()}
			if err := a.send(ev.event()); err != nil {
				r.Err = 1
			}
			time.Sleep(50 * time.Microsecond)
			fs := a.take()
			r.Frames = len(fs)
			if len(fs) > 0 {
				r.F, r.Svc = cvOf(fs[0]), svcOf(fs[0])
			}
			o.Rec(r)
			// end to end: what A put on the wire arrives at B as an indication
			if len(fs) == 1 && r.F.CK == "ldata" {
				ind := r.F
				ind.Code = 0x29
				e := groupRec{K: "group", Op: "e2e", Via: via, Ev: ev, F: cemiTo(nil), Msg: ind, GEv: noGE()}
				g, n := b.inject(ind.message())
				e.Got, e.GEv = n, g
				o.Rec(e)
			}
		}
		// ---- inbound filter: all message kinds x address types x APCI x unit kinds
		for kind := 0; kind < 11; kind++ {
			for rep := 0; rep < 6; rep++ {
				for apci := 0; apci < 16; apci++ {
					for grp := 0; grp < 2; grp++ {
						m := genCemi(rng, kind, false)
						if m.CK == "ldata" {
							m.C2 = (m.C2 & 0x7f) | grp<<7
							if m.Kind == "app" {
								m.Cmd = apci
							}
						} else if apci > 1 || grp > 0 {
							continue
						}
						r := groupRec{K: "group", Op: "in", Via: via, Ev: noGE(), F: cemiTo(nil), Msg: cemiTo(m.message()), GEv: noGE()}
						g, n := b.inject(m.message())
						r.Got, r.GEv = n, g
						o.Rec(r)
					}
				}
			}
		}
		// ---- concurrent senders: while one transmission holds the send lock (post-send pause / pending acknowledgement)
		// further Sends queue up; each event must still leave as its own frame, exactly once
		{
			c := newGroupClientCfg(t, via, rec, 1500*time.Microsecond)
			const G, K = 4, 6
			evs := make([]GE, 0, G*K)
			for i := 0; i < G*K; i++ {
				l := 3 + rng.Intn(20)
				ev := GE{Cmd: i % 3, Src: 0x1100 + i, Dst: 1 + rng.Intn(65535), Data: rbytes(rng, l)}
				ev.Data[0], ev.Data[1], ev.Data[2] = i%64, 0xC5, i // (0xC5, i) identifies the event in the frame's payload
				evs = append(evs, ev)
			}
			var wg sync.WaitGroup
			errs := make([]int, len(evs))
			start := make(chan struct{})
			for g := 0; g < G; g++ {
				wg.Add(1)
				go func(g int) {
					defer wg.Done()
					<-start
					for k := 0; k < K; k++ {
						if c.send(evs[g*K+k].event()) != nil {
							errs[g*K+k] = 1
						}
					}
				}(g)
			}
			close(start)
			wg.Wait()
			time.Sleep(3 * time.Millisecond)
			fs := c.take()
			for i, ev := range evs {
				r := groupRec{K: "group", Op: "out", Via: via, Ev: ev, F: cemiTo(nil), Msg: cemiTo(nil), GEv: noGE(), Err: errs[i]}
				for _, f := range fs {
					cv := cvOf(f)
					if len(cv.Data) >= 3 && cv.Data[1] == 0xC5 && cv.Data[2] == i {
						r.Frames++
						r.F, r.Svc = cv, svcOf(f)
					}
				}
				o.Rec(r)
			}
			c.stop()
		}
		// ---- the group channel closes when the underlying client's does - also when events are still unread at that
		// moment (a: one event, held by the forwarder; b: three, one held and the others waiting behind it)
		unread := func(c *groupClient, n int) {
			for i := 0; i < n; i++ {
				c.arrive(&cemi.LDataInd{LData: cemi.LData{Control1: 0xbc, Control2: 0xe0, Source: sentinel.Source, Destination: uint16(sentinel.Destination),
					Data: &cemi.AppData{Command: cemi.GroupValueWrite, Data: sentinel.Data}}})
			}
		}
		unread(a, 1)
		unread(b, 3)
		time.Sleep(30 * time.Millisecond)
		a.stop()
		b.stop()
		for _, c := range []*groupClient{a, b} {
			closed := 0
			deadline := time.After(2 * time.Second)
		loop:
			for {
				select {
				case _, ok := <-c.in:
					if !ok {
						closed = 1
						break loop
					}
				case <-deadline:
					break loop
				}
			}
			o.Rec(groupRec{K: "group", Op: "close", Via: via, Ev: noGE(), F: cemiTo(nil), Msg: cemiTo(nil), GEv: noGE(), Got: closed})
		}
	}
	t.Logf("%d records", o.n)
}

type discard struct{}

func (discard) Write(p []byte) (int, error) { return len(p), nil }
