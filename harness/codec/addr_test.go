package codec

import (
	"strconv"
	"strings"
	"testing"

	"github.com/vapourismo/knx-go/knx/cemi"
)

type comp struct {
	T string `json:"t"`
	V int    `json:"v"`
}

type addrRec struct {
	K     string `json:"k"`
	Op    string `json:"op"`
	Kind  string `json:"kind"`
	Comps []comp `json:"comps"`
	SepOK int    `json:"sepok"`
	OK    int    `json:"ok"`
	V     int    `json:"v"`
	X     int    `json:"x"`
	Fn    string `json:"fn"`
	A     int    `json:"a"`
	B     int    `json:"b"`
	C     int    `json:"c"`
	Text  string `json:"text"`
}

// render turns a token list into address text; the separator is the correct one unless sep is given.
func render(cs []comp, sep string) string {
	parts := make([]string, len(cs))
	for i, c := range cs {
		switch c.T {
		case "int":
			parts[i] = strconv.Itoa(c.V)
		case "empty":
			parts[i] = ""
		default:
			parts[i] = []string{"x", "1a", " 3", "0x10", "1.5e3", "--1", "٣"}[c.V%7]
		}
	}
	return strings.Join(parts, sep)
}

// tokenise is the one trusted lexical step for the format direction: split and strconv.
func tokenise(s, sep string) []comp {
	var cs []comp
	for _, p := range strings.Split(s, sep) {
		if n, err := strconv.Atoi(p); err == nil {
			cs = append(cs, comp{"int", n})
		} else if p == "" {
			cs = append(cs, comp{"empty", 0})
		} else {
			cs = append(cs, comp{"junk", 0})
		}
	}
	return cs
}

func parse(kind, text string) (int, bool) {
	if kind == "group" {
		v, err := cemi.NewGroupAddrString(text)
		return int(v), err == nil
	}
	v, err := cemi.NewIndividualAddrString(text)
	return int(v), err == nil
}

func TestC18(t *testing.T) {
	o, err := Open("VERIF_OUT")
	if err != nil {
		t.Skip(err)
	}
	defer o.Close()
	rng := Rng()
	seps := map[string]string{"group": "/", "individual": "."}
	logParse := func(kind string, cs []comp, sep string) {
		text := render(cs, sep)
		var v int
		var ok bool
		p, _ := Guarded(func() { v, ok = parse(kind, text) })
		if p {
			ok, v = true, -2 // a panic is never an acceptable outcome: neither accepted nor rejected
		}
		o.Rec(addrRec{K: "addr", Op: "parse", Kind: kind, Comps: cs, SepOK: B2i(sep == seps[kind] || len(cs) == 1), OK: B2i(ok), V: v, Text: text})
	}
	for _, kind := range []string{"group", "individual"} {
		sep := seps[kind]
		// round trip of all 65,535 non-zero addresses: String() is tokenised, TLC compares with Format and parses back
		for x := 1; x <= 65535; x++ {
			var text string
			if kind == "group" {
				text = cemi.GroupAddr(x).String()
			} else {
				text = cemi.IndividualAddr(x).String()
			}
			v, ok := parse(kind, text)
			o.Rec(addrRec{K: "addr", Op: "format", Kind: kind, X: x, Comps: tokenise(text, sep), OK: B2i(ok), V: v, Text: text})
		}
		// acceptance: all component triples / pairs over the documented ranges widened by 3 on both sides
		r3 := [][2]int{{-3, 34}, {-3, 10}, {-3, 258}}
		r2 := [][2]int{{-3, 34}, {-3, 2050}}
		if kind == "individual" {
			r3 = [][2]int{{-3, 18}, {-3, 18}, {-3, 258}}
			r2 = [][2]int{{-3, 258}, {-3, 258}}
		}
		for a := r3[0][0]; a <= r3[0][1]; a++ {
			for b := r3[1][0]; b <= r3[1][1]; b++ {
				for c := r3[2][0]; c <= r3[2][1]; c++ {
					logParse(kind, []comp{{"int", a}, {"int", b}, {"int", c}}, sep)
				}
			}
		}
		for a := r2[0][0]; a <= r2[0][1]; a++ {
			for b := r2[1][0]; b <= r2[1][1]; b++ {
				logParse(kind, []comp{{"int", a}, {"int", b}}, sep)
			}
		}
		for _, a := range []int{-70000, -1, 0, 1, 2, 255, 256, 32767, 32768, 65534, 65535, 65536, 65537, 70000, 2147483647} {
			logParse(kind, []comp{{"int", a}}, sep)
		}
		// malformed shapes: 0 or 4+ components, wrong / mixed separators, empty or junk components at every position
		wrong := map[string]string{"group": ".", "individual": "/"}[kind]
		for n := 1; n <= 5; n++ {
			for trial := 0; trial < 40; trial++ {
				cs := make([]comp, n)
				for i := range cs {
					cs[i] = comp{"int", rng.Intn(8)}
				}
				if trial%4 == 1 {
					cs[rng.Intn(n)] = comp{"empty", 0}
				} else if trial%4 == 2 {
					cs[rng.Intn(n)] = comp{"junk", rng.Intn(7)}
				}
				s := sep
				if trial%4 == 3 {
					s = wrong
				}
				if n >= 2 && trial%8 == 7 {
					s = [...]string{"-", ":", ",", " ", "//", ".."}[rng.Intn(6)]
				}
				logParse(kind, cs, s)
			}
		}
		logParse(kind, []comp{{"empty", 0}}, sep)
	}
	// constructors over sampled 8-bit (and 16-bit) arguments
	n := 20000
	if Thorough() {
		n = 400000
	}
	for i := 0; i < n; i++ {
		a, b, c := rng.Intn(256), rng.Intn(256), rng.Intn(256)
		if i < 4096 {
			a, b, c = (i>>8)*17%256, (i>>4)&15*17, (i&15)*17
		}
		o.Rec(addrRec{K: "addr", Comps: []comp{}, Op: "ctor", Fn: "Group3", A: a, B: b, C: c, V: int(cemi.NewGroupAddr3(uint8(a), uint8(b), uint8(c)))})
		o.Rec(addrRec{K: "addr", Comps: []comp{}, Op: "ctor", Fn: "Individual3", A: a, B: b, C: c, V: int(cemi.NewIndividualAddr3(uint8(a), uint8(b), uint8(c)))})
		o.Rec(addrRec{K: "addr", Comps: []comp{}, Op: "ctor", Fn: "Individual2", A: a, B: b, V: int(cemi.NewIndividualAddr2(uint8(a), uint8(b)))})
		b16 := rng.Intn(65536)
		o.Rec(addrRec{K: "addr", Comps: []comp{}, Op: "ctor", Fn: "Group2", A: a, B: b16, V: int(cemi.NewGroupAddr2(uint8(a), uint16(b16)))})
	}
	t.Logf("%d records", o.n)
}
