package codec

import (
	"math"
	"math/rand"
	"reflect"
	"sort"
	"testing"

	"github.com/vapourismo/knx-go/knx/dpt"
)

// Val is a datapoint value without interpretation: bit patterns, integers, code points, fields.
type Val struct {
	T  string `json:"t"`  // f32 | int | bool | str | struct | none
	Hi int    `json:"hi"` // f32: high 16 bits of the IEEE-754 pattern
	Lo int    `json:"lo"` // f32: low 16 bits
	V  int    `json:"v"`  // int / bool
	R  []int  `json:"r"`  // str: code points
	F  []int  `json:"f"`  // struct: fields in declaration order (bool as 0/1)
}

func noVal() Val { return Val{T: "none", R: []int{}, F: []int{}} }

func valOf(d dpt.Datapoint) Val {
	v := reflect.ValueOf(d).Elem()
	out := noVal()
	switch v.Kind() {
	case reflect.Float32:
		bits := math.Float32bits(float32(v.Float()))
		out.T, out.Hi, out.Lo = "f32", int(bits>>16), int(bits&0xffff)
	case reflect.Bool:
		out.T, out.V = "bool", B2i(v.Bool())
	case reflect.Int8, reflect.Int16, reflect.Int32, reflect.Int64, reflect.Int:
		out.T, out.V = "int", int(v.Int())
	case reflect.Uint8, reflect.Uint16, reflect.Uint32, reflect.Uint64, reflect.Uint:
		u := v.Uint()
		out.T = "int"
		if u > math.MaxInt32 { // 12.001: keep within TLC's integers: two halves
			out.T, out.Hi, out.Lo = "u32", int(u>>16), int(u&0xffff)
		} else {
			out.V = int(u)
		}
	case reflect.String:
		out.T = "str"
		for _, r := range v.String() {
			out.R = append(out.R, int(r))
		}
	case reflect.Struct:
		out.T = "struct"
		for i := 0; i < v.NumField(); i++ {
			f := v.Field(i)
			switch f.Kind() {
			case reflect.Bool:
				out.F = append(out.F, B2i(f.Bool()))
			case reflect.Uint8, reflect.Uint16, reflect.Uint32:
				out.F = append(out.F, int(f.Uint()))
			default:
				out.F = append(out.F, int(f.Int()))
			}
		}
	}
	return out
}

// setVal stores x into the datapoint (for the encode direction).
func setF32(d dpt.Datapoint, f float32) { reflect.ValueOf(d).Elem().SetFloat(float64(f)) }

type dptRec struct {
	K     string `json:"k"`
	Op    string `json:"op"` // rt (decode, re-encode, decode) | dec (decode only) | enc (encode, decode)
	Name  string `json:"name"`
	Main  int    `json:"main"`
	Sub   int    `json:"sub"`
	B     []int  `json:"b"`
	Panic int    `json:"panic"`
	OK1   int    `json:"ok1"`
	V1    Val    `json:"v1"`
	B2    []int  `json:"b2"`
	OK2   int    `json:"ok2"`
	V2    Val    `json:"v2"`
	SPan  int    `json:"span"` // String() or Unit() panicked
	In    Val    `json:"in"`   // enc: the value that was encoded
	Idx   int    `json:"idx"`  // enc: position in the sorted input list of this type
	Reuse int    `json:"reuse"` // 1 = decoding the same payload into a receiver that held an earlier value gave another value / verdict
}

// one long-lived receiver per type: it holds whatever the previous accepted payload of that type left in it
var usedReceiver = map[string]dpt.Datapoint{}
var usedPool = map[string][][]byte{}
var usedRng = rand.New(rand.NewSource(20))

func splitName(n string) (int, int) {
	m, s, dot := 0, 0, false
	for _, c := range n {
		if c == '.' {
			dot = true
			continue
		}
		if c < '0' || c > '9' {
			return -1, -1
		}
		if dot {
			s = s*10 + int(c-'0')
		} else {
			m = m*10 + int(c-'0')
		}
	}
	return m, s
}

func newRec(op, name string) dptRec {
	m, s := splitName(name)
	return dptRec{K: "dpt", Op: op, Name: name, Main: m, Sub: s, B: []int{}, B2: []int{}, V1: noVal(), V2: noVal(), In: noVal()}
}

// roundTrip decodes b, and if accepted re-encodes and decodes again.
func roundTrip(o *Out, name string, b []byte, op string) {
	r := newRec(op, name)
	r.B = Ints(b)
	p, _ := Guarded(func() {
		d, _ := dpt.Produce(name)
		if err := d.Unpack(b); err != nil {
			return
		}
		r.OK1, r.V1 = 1, valOf(d)
		// the decoded value is a function of the payload: a receiver that was used before must end up with the same value
		// (and re-encode to the same bytes) as a fresh one
		u := usedReceiver[name]
		if u == nil {
			u, _ = dpt.Produce(name)
			usedReceiver[name] = u
		}
		// (what it holds is the decoding of one of up to 16 earlier accepted payloads of the type, picked at random)
		pool := usedPool[name]
		if len(pool) > 0 {
			_ = u.Unpack(pool[usedRng.Intn(len(pool))])
		}
		// ... and of perturbations of the payload at hand (whichever of them the decoder accepts): every field that can
		// differ does differ from what is decoded next
		for _, m := range []byte{0xff, 0xa5, 0x5a, 0x21, 0xe0} {
			pb := append([]byte{}, b...)
			for i := 1; i < len(pb); i++ {
				pb[i] ^= m
			}
			Guarded(func() { _ = u.Unpack(pb) })
		}
		if len(pool) < 16 {
			usedPool[name] = append(pool, append([]byte{}, b...))
		} else if usedRng.Intn(64) == 0 {
			pool[usedRng.Intn(16)] = append([]byte{}, b...)
		}
		if err := u.Unpack(b); err != nil || !reflect.DeepEqual(valOf(u), r.V1) || !reflect.DeepEqual(u.Pack(), d.Pack()) {
			r.Reuse = 1
		}
		sp, _ := Guarded(func() { _ = d.String(); _ = d.Unit() })
		r.SPan = B2i(sp)
		if op == "dec" {
			return
		}
		b2 := d.Pack()
		r.B2 = Ints(b2)
		d2, _ := dpt.Produce(name)
		if err := d2.Unpack(b2); err == nil {
			r.OK2, r.V2 = 1, valOf(d2)
		}
	})
	r.Panic = B2i(p)
	o.Rec(r)
}

func names() []string {
	ns := dpt.ListSupportedTypes()
	sort.Strings(ns)
	return ns
}

// types whose complete 2^16 encoding space is enumerated in the quick tier as well
var fullQuick = map[string]bool{"9.001": true, "9.004": true, "9.027": true, "7.001": true, "8.001": true, "8.003": true, "8.004": true, "8.010": true,
	"12.001": true, "13.001": true, "13.010": true, "14.000": true, "14.019": true, "14.056": true, "14.1200": true}

func fixedLen(main int) int {
	switch main {
	case 1, 2, 3:
		return 1
	case 5, 6, 17, 18, 20:
		return 2
	case 7, 8, 9:
		return 3
	case 10, 11, 232:
		return 4
	case 12, 13, 14:
		return 5
	case 242, 251:
		return 7
	case 16:
		return 15
	}
	return -1
}

// payload domains per property C06 / C08
func payloads(rng *rand.Rand, name string, f func(b []byte)) {
	main, _ := splitName(name)
	n := fixedLen(main)
	corners := []int{0, 1, 0x7fff, 0x8000, 0xffff}
	switch {
	case n == 1:
		for v := 0; v < 256; v++ {
			f([]byte{byte(v)})
		}
	case n == 2:
		for v := 0; v < 256; v++ {
			f([]byte{0, byte(v)})
			if v%16 == 0 {
				f([]byte{byte(rng.Intn(255) + 1), byte(v)})
			}
		}
	case n == 3:
		full := Thorough() || fullQuick[name]
		for v := 0; v < 65536; v++ {
			if full || v%13 == 0 || v < 96 || v > 65439 || (v >= 0x7fa0 && v < 0x8060) || v&0x7ff == 0 || v&0x7ff == 0x7ff {
				f([]byte{0, byte(v >> 8), byte(v)})
			}
		}
		for i := 0; i < 64; i++ {
			f([]byte{byte(rng.Intn(255) + 1), byte(rng.Intn(256)), byte(rng.Intn(256))})
		}
	case n == 5:
		stride, k := 97, 3000
		if Thorough() {
			stride, k = 1, 60000
		} else if !fullQuick[name] {
			stride, k = 2203, 400 // siblings of a representative share its codec: thin sample in the quick tier
		}
		for _, hi := range corners {
			for lo := 0; lo < 65536; lo += 1 {
				if lo%stride != 0 && lo > 64 && lo < 65472 {
					continue
				}
				f([]byte{0, byte(hi >> 8), byte(hi), byte(lo >> 8), byte(lo)})
			}
		}
		for _, lo := range corners {
			for hi := 0; hi < 65536; hi += 1 {
				if hi%stride != 0 && hi > 64 && hi < 65472 {
					continue
				}
				f([]byte{0, byte(hi >> 8), byte(hi), byte(lo >> 8), byte(lo)})
			}
		}
		for i := 0; i < k; i++ {
			// stratified: every sign / exponent class x corner and seeded mantissas
			exp := i % 256
			sign := (i / 256) % 2
			man := []int{0, 1, 0x400000, 0x7fffff, rng.Intn(1 << 23)}[(i/512)%5]
			bits := uint32(sign)<<31 | uint32(exp)<<23 | uint32(man)
			f([]byte{0, byte(bits >> 24), byte(bits >> 16), byte(bits >> 8), byte(bits)})
		}
	case main == 10: // weekday x hour x minute x second incl. reserved bits
		for b1 := 0; b1 < 256; b1++ {
			for _, mi := range []int{0, 1, 30, 59, 60, 61, 63, 64, 127, 128, 255} {
				for _, se := range []int{0, 59, 60, 63, 64, 255} {
					f([]byte{0, byte(b1), byte(mi), byte(se)})
				}
			}
		}
		if Thorough() {
			for b1 := 0; b1 < 256; b1++ {
				for mi := 0; mi < 64; mi++ {
					for se := 0; se < 64; se++ {
						f([]byte{0, byte(b1), byte(mi), byte(se)})
					}
				}
			}
		}
	case main == 11: // day x month x year
		for d := 0; d < 32; d++ {
			for m := 0; m < 16; m++ {
				for y := 0; y < 128; y++ {
					f([]byte{0, byte(d), byte(m), byte(y)})
				}
			}
		}
		for i := 0; i < 2000; i++ {
			f([]byte{byte(rng.Intn(2) * rng.Intn(256)), byte(rng.Intn(256)), byte(rng.Intn(256)), byte(rng.Intn(256))})
		}
	case main == 232:
		for i := 0; i < 3000; i++ {
			f([]byte{0, byte(pick(rng, 0, 255, rng.Intn(256))), byte(pick(rng, 0, 255, rng.Intn(256))), byte(pick(rng, 0, 255, rng.Intn(256)))})
		}
	case main == 242 || main == 251:
		for v := 0; v < 256; v++ { // all reserved / valid bit patterns
			for rep := 0; rep < 4; rep++ {
				b := []byte{0, byte(rng.Intn(256)), byte(rng.Intn(256)), byte(rng.Intn(256)), byte(rng.Intn(256)), byte(pick(rng, 0, 0, 255, rng.Intn(256))), byte(v)}
				f(b)
			}
		}
	case main == 16:
		alpha := []int{0, 0, 1, 0x20, 0x41, 0x7f, 0x80, 0xe4, 0xff}
		for i := 0; i < 6000; i++ {
			b := make([]byte, 15)
			l := rng.Intn(15)
			for j := 1; j <= l; j++ {
				b[j] = byte(alpha[rng.Intn(len(alpha))])
				if rng.Intn(3) == 0 {
					b[j] = byte(rng.Intn(256))
				}
			}
			if rng.Intn(8) == 0 {
				b[0] = byte(rng.Intn(256))
			}
			f(b)
		}
	case main == 28:
		for i := 0; i < 4000; i++ {
			l := pick(rng, 2, 3, 4, 10, 2+rng.Intn(40))
			b := make([]byte, l)
			for j := 1; j < l-1; j++ {
				b[j] = byte(pick(rng, 'a', 0xc3, 0xa4, 0xe2, 0x82, 0xac, 0xf0, 0x9f, 0, 0xff, rng.Intn(256)))
			}
			if rng.Intn(4) == 0 {
				b[l-1] = byte(rng.Intn(256))
			}
			f(b)
		}
	}
}

// TestC06 logs decode / re-encode / decode records over the payload domains of every registered type.
func TestC06(t *testing.T) {
	o, err := Open("VERIF_OUT")
	if err != nil {
		t.Skip(err)
	}
	defer o.Close()
	rng := Rng()
	for _, name := range names() {
		payloads(rng, name, func(b []byte) { roundTrip(o, name, b, "rt") })
	}
	t.Logf("%d records", o.n)
}

// TestC08 logs decode-only records: wrong lengths, boundary-rich byte strings, complete field products.
func TestC08(t *testing.T) {
	o, err := Open("VERIF_OUT")
	if err != nil {
		t.Skip(err)
	}
	defer o.Close()
	rng := Rng()
	alpha := []byte{0x00, 0x01, 0x3f, 0x40, 0x7f, 0x80, 0xff}
	for _, name := range names() {
		main, _ := splitName(name)
		// every byte string of length 0..20 over the alphabet with at most 3 non-zero positions (sampled per length in the quick tier)
		for l := 0; l <= 20; l++ {
			roundTrip(o, name, make([]byte, l), "dec")
			per := 12
			if Thorough() {
				per = 150
			}
			for i := 0; i < per; i++ {
				b := make([]byte, l)
				for k := 0; k < 3 && l > 0; k++ {
					b[rng.Intn(l)] = alpha[rng.Intn(len(alpha))]
				}
				roundTrip(o, name, b, "dec")
			}
			if l > 0 {
				b := make([]byte, l)
				for j := range b {
					b[j] = 0xff
				}
				roundTrip(o, name, b, "dec")
			}
		}
		// complete payload domains of the correct length (small types), field products (time, date), reserved bits
		if n := fixedLen(main); n >= 1 && n <= 3 || main == 10 || main == 11 || main == 242 || main == 251 || main == 16 || main == 28 {
			payloads(rng, name, func(b []byte) { roundTrip(o, name, b, "dec") })
		} else {
			for i := 0; i < 400; i++ {
				b := make([]byte, n)
				rng.Read(b)
				b[0] = 0
				roundTrip(o, name, b, "dec")
			}
		}
	}
	t.Logf("%d records", o.n)
}

// ---- C07: the encode direction ---------------------------------------------------------------

func f32Val(f float32) Val {
	bits := math.Float32bits(f)
	v := noVal()
	v.T, v.Hi, v.Lo = "f32", int(bits>>16), int(bits&0xffff)
	return v
}

func encRecord(o *Out, name string, d dpt.Datapoint, in Val, idx int) {
	r := newRec("enc", name)
	r.In, r.Idx = in, idx
	p, _ := Guarded(func() {
		b := d.Pack()
		r.B = Ints(b)
		d2, _ := dpt.Produce(name)
		if err := d2.Unpack(b); err == nil {
			r.OK1, r.V1 = 1, valOf(d2)
		}
	})
	r.Panic = B2i(p)
	o.Rec(r)
}

func floatInputs(rng *rand.Rand, n int) []float32 {
	var xs []float32
	add := func(f float64) {
		x := float32(f)
		xs = append(xs, x, math.Nextafter32(x, float32(math.Inf(1))), math.Nextafter32(x, float32(math.Inf(-1))), -x)
	}
	for _, b := range []float64{0, 0.005, 0.01, 0.5, 1, 20.47, 20.48, 100, 255, 273, 327.67, 327.68, 360, 459.6, 655.35, 3276.7, 3276.8, 32767, 32768, 65535,
		670760, 670760.96, 671088.64, 1e6, 1e9, 3.4e38} {
		add(b)
	}
	// neighbours of every exponent-switch point of the 16-bit float: +-2047*2^e/100, +-2048*2^e/100
	for e := 0; e < 16; e++ {
		add(2047 * float64(int(1)<<e) / 100)
		add(2048 * float64(int(1)<<e) / 100)
		add(2047.5 * float64(int(1)<<e) / 100)
	}
	// log-uniform over 1e-3 .. 1e9, both signs
	for i := 0; i < n; i++ {
		x := math.Pow(10, -3+12*rng.Float64())
		if rng.Intn(2) == 0 {
			x = -x
		}
		xs = append(xs, float32(x))
	}
	// dense around the interesting small ranges
	for i := 0; i < n/2; i++ {
		xs = append(xs, float32(rng.Float64()*720-360), float32(rng.Float64()*140-20))
	}
	sort.Slice(xs, func(i, j int) bool { return xs[i] < xs[j] })
	return xs
}

// TestC07 encodes values of every registered type (in range, at and beyond the bounds) and decodes the result.
func TestC07(t *testing.T) {
	o, err := Open("VERIF_OUT")
	if err != nil {
		t.Skip(err)
	}
	defer o.Close()
	rng := Rng()
	nf := 1500
	if Thorough() {
		nf = 120000
	}
	for _, name := range names() {
		main, _ := splitName(name)
		d, _ := dpt.Produce(name)
		v := reflect.ValueOf(d).Elem()
		switch v.Kind() {
		case reflect.Float32:
			n := nf
			if main == 14 && !fullQuick[name] && !Thorough() {
				n = 100
			}
			for i, x := range floatInputs(rng, n) {
				dd, _ := dpt.Produce(name)
				setF32(dd, x)
				encRecord(o, name, dd, f32Val(x), i)
			}
		case reflect.Bool:
			for i, x := range []bool{false, true} {
				dd, _ := dpt.Produce(name)
				reflect.ValueOf(dd).Elem().SetBool(x)
				in := noVal()
				in.T, in.V = "bool", B2i(x)
				encRecord(o, name, dd, in, i)
			}
		case reflect.Uint8, reflect.Uint16, reflect.Uint32:
			max := uint64(1)<<uint(v.Type().Bits()) - 1
			var xs []uint64
			if max <= 65535 && (max <= 255 || Thorough() || fullQuick[name]) {
				for x := uint64(0); x <= max; x++ {
					xs = append(xs, x)
				}
			} else {
				xs = []uint64{0, 1, 2, 63, 64, 127, 128, 191, 192, 255, 256, 32767, 32768, 65535, max / 2, max/2 + 1, max - 1, max}
				for i := 0; i < 500; i++ {
					xs = append(xs, uint64(rng.Int63())&max)
				}
				sort.Slice(xs, func(i, j int) bool { return xs[i] < xs[j] })
			}
			for i, x := range xs {
				if x > max {
					continue
				}
				dd, _ := dpt.Produce(name)
				reflect.ValueOf(dd).Elem().SetUint(x)
				encRecord(o, name, dd, valOf(dd), i)
			}
		case reflect.Int8, reflect.Int16, reflect.Int32:
			bits := uint(v.Type().Bits())
			lo, hi := -(int64(1) << (bits - 1)), int64(1)<<(bits-1)-1
			var xs []int64
			if bits <= 16 && (bits == 8 || Thorough() || fullQuick[name]) {
				for x := lo; x <= hi; x++ {
					xs = append(xs, x)
				}
			} else {
				xs = []int64{lo, lo + 1, -32769, -32768, -257, -256, -129, -128, -1, 0, 1, 127, 128, 255, 256, 32767, 32768, hi - 1, hi}
				for i := 0; i < 500; i++ {
					xs = append(xs, lo+rng.Int63n(hi-lo+1))
				}
				sort.Slice(xs, func(i, j int) bool { return xs[i] < xs[j] })
			}
			for i, x := range xs {
				if x < lo || x > hi {
					continue
				}
				dd, _ := dpt.Produce(name)
				reflect.ValueOf(dd).Elem().SetInt(x)
				encRecord(o, name, dd, valOf(dd), i)
			}
		case reflect.String:
			alpha := []rune{'A', 'z', ' ', '~', 0x7f, 0xa0, 0xe4, 0xff, 0x100, 0x20ac, 0x1f600}
			for i := 0; i < 1500; i++ {
				l := rng.Intn(41)
				rs := make([]rune, l)
				for j := range rs {
					rs[j] = alpha[rng.Intn(len(alpha))]
					if i%3 == 0 {
						rs[j] = rune(0x20 + rng.Intn(0x5f))
					}
				}
				dd, _ := dpt.Produce(name)
				reflect.ValueOf(dd).Elem().SetString(string(rs))
				encRecord(o, name, dd, valOf(dd), i)
			}
		case reflect.Struct:
			// full field products incl. out-of-range fields
			fieldVals := func(kind reflect.Kind) []uint64 {
				switch kind {
				case reflect.Bool:
					return []uint64{0, 1}
				case reflect.Uint16:
					return []uint64{0, 1, 1989, 1990, 1999, 2000, 2023, 2024, 2089, 2090, 65535}
				}
				return nil
			}
			nfld := v.NumField()
			idx := 0
			var rec func(k int, dd dpt.Datapoint)
			choices := make([][]uint64, nfld)
			for k := 0; k < nfld; k++ {
				fk := v.Field(k).Kind()
				if c := fieldVals(fk); c != nil {
					choices[k] = c
					continue
				}
				switch {
				case main == 10:
					choices[k] = [][]uint64{{0, 1, 7, 8, 255}, {0, 1, 23, 24, 31, 32, 255}, {0, 59, 60, 63, 64, 255}, {0, 59, 60, 63, 255}}[k]
				case main == 11:
					choices[k] = [][]uint64{nil, {0, 1, 2, 4, 12, 13, 15, 16, 255}, {0, 1, 28, 29, 30, 31, 32, 255}}[k]
				default:
					choices[k] = []uint64{0, 1, 127, 128, 255}
					if fk == reflect.Uint16 {
						choices[k] = []uint64{0, 1, 0x1234, 0xffff}
					}
				}
			}
			rec = func(k int, dd dpt.Datapoint) {
				if k == nfld {
					cp, _ := dpt.Produce(name)
					reflect.ValueOf(cp).Elem().Set(reflect.ValueOf(dd).Elem())
					encRecord(o, name, cp, valOf(cp), idx)
					idx++
					return
				}
				for _, c := range choices[k] {
					f := reflect.ValueOf(dd).Elem().Field(k)
					if f.Kind() == reflect.Bool {
						f.SetBool(c == 1)
					} else {
						f.SetUint(c)
					}
					rec(k+1, dd)
				}
			}
			dd, _ := dpt.Produce(name)
			rec(0, dd)
		}
	}
	t.Logf("%d records", o.n)
}
