module verif/harness

go 1.26.8

require github.com/vapourismo/knx-go v0.0.0

replace github.com/vapourismo/knx-go => /repo
