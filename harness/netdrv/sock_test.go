//go:build verif

// Package netdrv drives the real sockets of knx-go (knxnet.DialTunnelUDP/TCP, ListenRouter,
// knx.DescribeTunnel, knx.Discover) over loopback against scripted peers and logs what was
// written and what surfaced as records for the TLA+ judges (C16, C20 and the receiver clause of C01).
package netdrv

import (
	"bytes"
	"encoding/hex"
	"fmt"
	"net"
	"runtime"
	"strings"
	"sync"
	"testing"
	"time"

	"github.com/vapourismo/knx-go/knx"
	"github.com/vapourismo/knx-go/knx/cemi"
	"github.com/vapourismo/knx-go/knx/knxnet"

	"verif/harness/codec"
)

type frameRec struct {
	Hex  string `json:"hex"`
	WF   int    `json:"wf"`   // the decoder accepts it (judged by knxnet.Unpack on exactly these bytes)
	Surf string `json:"surf"` // what it looks like when surfaced (decoded from exactly these bytes and re-encoded)
}

func fr(b []byte) frameRec {
	r := frameRec{Hex: hex.EncodeToString(b), WF: codec.B2i(wellFormed(b))}
	if r.WF == 1 {
		r.Surf = surfaced(b)
	}
	return r
}

type sockRec struct {
	K         string     `json:"k"`
	Op        string     `json:"op"` // recv | send | hpai
	Mode      string     `json:"mode"`
	Tag       string     `json:"tag"`
	Sent      []frameRec `json:"sent"`
	Got       []string   `json:"got"`    // frames surfaced on Inbound, re-encoded (hex)
	Closed    int        `json:"closed"` // Inbound closed after Close / peer close
	Gone      int        `json:"gone"`   // receiver goroutine absent afterwards
	Segs      []int      `json:"segs"`   // TCP: segment lengths written
	Peer      []string   `json:"peer"`   // send: frames the peer saw (datagrams / parsed stream)
	Contig    int        `json:"contig"` // send: the TCP stream parsed into whole frames without leftover
	SendLocal int        `json:"sendlocal"`
	Ctl       []int      `json:"ctl"` // hpai: control endpoint of the ConnReq <<proto,a,b,c,d,port>>
	Tun       []int      `json:"tun"`
	Local     []int      `json:"local"` // real local endpoint of the socket
}

func blank(op, mode, tag string) sockRec {
	return sockRec{K: "sock", Op: op, Mode: mode, Tag: tag, Sent: []frameRec{}, Got: []string{}, Segs: []int{}, Peer: []string{}, Ctl: []int{}, Tun: []int{}, Local: []int{}}
}

func wellFormed(b []byte) bool {
	ok := false
	codec.Guarded(func() {
		var s knxnet.Service
		_, err := knxnet.Unpack(b, &s)
		ok = err == nil
	})
	return ok
}

func reenc(s knxnet.Service) string {
	if p, ok := s.(knxnet.ServicePackable); ok {
		var out string
		if pan, _ := codec.Guarded(func() { out = hex.EncodeToString(knxnet.AllocAndPack(p)) }); !pan {
			return out
		}
	}
	switch s := s.(type) {
	case *knxnet.RoutingBusy:
		return fmt.Sprintf("busy:%d:%d:%d", s.Status, s.WaitTime/time.Millisecond, s.Control)
	case *knxnet.RoutingLost:
		return fmt.Sprintf("lost:%d:%d", s.Status, s.Count)
	}
	return fmt.Sprintf("svc:%04x", uint16(s.Service()))
}

// expected surfaced form of a well-formed frame: decode + re-encode with the same functions
func surfaced(b []byte) string {
	var s knxnet.Service
	knxnet.Unpack(b, &s)
	return reenc(s)
}

func goroutinesWith(sub string) int {
	buf := make([]byte, 1<<20)
	buf = buf[:runtime.Stack(buf, true)]
	return strings.Count(string(buf), sub)
}

// collect keeps every surfaced frame as the consumer got it and renders them only when the stream has gone quiet: a
// frame the consumer still holds must not change when later datagrams arrive (the receivers reuse their buffers).
// collectPause makes collect stop reading for this long after every third frame (a consumer that is momentarily busy).
var collectPause time.Duration

func collect(in <-chan knxnet.Service, want int, quiet time.Duration) (got []string, closed bool) {
	var held []knxnet.Service
	defer func() {
		for _, s := range held {
			got = append(got, reenc(s))
		}
	}()
	for {
		select {
		case s, ok := <-in:
			if !ok {
				return nil, true
			}
			held = append(held, s)
			if collectPause > 0 && len(held)%3 == 0 {
				time.Sleep(collectPause)
			}
		case <-time.After(quiet):
			return nil, false
		}
	}
}

func payload(pid int) cemi.Message {
	return &cemi.LDataInd{LData: cemi.LData{Control1: 0xbc, Control2: 0xe0, Source: 0x1107, Destination: 0x0a03,
		Data: &cemi.AppData{Command: cemi.GroupValueWrite, Data: []byte{0, byte(pid >> 8), byte(pid)}}}}
}

// frames of every service type the library can encode, plus raw ones it can only decode and malformed ones
func frameSet(n int, rng interface{ Intn(int) int }, malformed bool, maxLen int) [][]byte {
	var fs [][]byte
	for i := 0; i < n; i++ {
		var b []byte
		switch rng.Intn(14) {
		case 12, 13:
			// a service type the library has no decoder for (surfaced as *UnknownService with its body)
			ids := []int{0x0950, 0x0951, 0x0310, 0x0311, 0x0422, 0x0423, 0x0203 + 0x0700, 0x020b}
			body := make([]byte, 2+rng.Intn(40))
			for j := range body {
				body[j] = byte(rng.Intn(256))
			}
			id := ids[rng.Intn(len(ids))]
			b = append([]byte{6, 0x10, byte(id >> 8), byte(id), byte((6 + len(body)) >> 8), byte(6 + len(body))}, body...)
		case 0:
			b = knxnet.AllocAndPack(&knxnet.TunnelReq{Channel: uint8(rng.Intn(256)), SeqNumber: uint8(i), Payload: payload(i)})
		case 1:
			b = knxnet.AllocAndPack(&knxnet.TunnelRes{Channel: 1, SeqNumber: uint8(i), Status: 0})
		case 2:
			b = knxnet.AllocAndPack(&knxnet.ConnRes{Channel: 3, Status: 0, Control: knxnet.HostInfo{Protocol: 1, Port: 3671}})
		case 3:
			b = knxnet.AllocAndPack(&knxnet.ConnStateRes{Channel: 3, Status: knxnet.ErrCode(rng.Intn(256))})
		case 4:
			b = knxnet.AllocAndPack(&knxnet.DiscReq{Channel: 3})
		case 5:
			b = knxnet.AllocAndPack(&knxnet.RoutingInd{Payload: payload(i)})
		case 6:
			raw := make([]byte, 1+rng.Intn(maxLen))
			for j := range raw {
				raw[j] = byte(rng.Intn(256))
			}
			b = knxnet.AllocAndPack(&knxnet.RoutingInd{Payload: &cemi.LRawReq{LRaw: raw}})
		case 7:
			b = []byte{6, 0x10, 0x05, 0x32, 0, 12, 6, 0, 0, byte(rng.Intn(100)), 0, byte(rng.Intn(2))}
		case 8:
			b = []byte{6, 0x10, 0x05, 0x31, 0, 10, 4, 0, 0, byte(rng.Intn(9))}
		case 9:
			b = knxnet.AllocAndPack(&knxnet.ConnStateReq{Channel: 1, Control: knxnet.HostInfo{Protocol: 1}})
		case 10:
			b = knxnet.AllocAndPack(&knxnet.DiscRes{Channel: uint8(i)})
		default:
			b = knxnet.AllocAndPack(&knxnet.SearchReq{HostInfo: knxnet.HostInfo{Protocol: 1, Address: knxnet.Address{10, 0, 0, 1}, Port: 3671}})
		}
		if malformed && rng.Intn(4) == 0 {
			// a frame whose header is valid and whose total length is truthful but whose body is broken
			m := append([]byte{}, b...)
			switch rng.Intn(3) {
			case 0:
				if len(m) > 8 {
					m = m[:len(m)-1-rng.Intn(2)]
					m[4], m[5] = byte(len(m)>>8), byte(len(m))
				}
			case 1:
				if len(m) > 6 {
					m[6] = byte(200 + rng.Intn(50))
				}
			default:
				m = append(m[:6:6], 1)
				m[4], m[5] = 0, 7
			}
			b = m
		}
		fs = append(fs, b)
	}
	return fs
}

// ---- UDP receive -------------------------------------------------------------------------------

func udpPair(t *testing.T) (*knxnet.TunnelSocket, *net.UDPConn, *net.UDPAddr) {
	peer, err := net.ListenUDP("udp4", &net.UDPAddr{IP: net.IPv4(127, 0, 0, 1)})
	if err != nil {
		t.Fatal(err)
	}
	sock, err := knxnet.DialTunnelUDP(peer.LocalAddr().String())
	if err != nil {
		t.Fatal(err)
	}
	return sock, peer, sock.LocalAddr().(*net.UDPAddr)
}

func runUDPRecv(o *codec.Out, t *testing.T, frames [][]byte, tag string, closeMode string) {
	sock, peer, caddr := udpPair(t)
	defer peer.Close()
	r := blank("recv", "udp", tag)
	var wg sync.WaitGroup
	wg.Add(1)
	var got []string
	var closed bool
	go func() {
		defer wg.Done()
		got, closed = collect(sock.Inbound(), 0, 150*time.Millisecond)
	}()
	for _, f := range frames {
		peer.WriteToUDP(f, caddr)
		r.Sent = append(r.Sent, fr(f))
		if !strings.HasPrefix(tag, "udp-burst") { // (bursts: datagrams queue up in the kernel back to back)
			time.Sleep(120 * time.Microsecond)
		}
	}
	wg.Wait()
	sock.Close()
	if !closed {
		more, c := collect(sock.Inbound(), 0, 300*time.Millisecond)
		got = append(got, more...)
		closed = c
	}
	time.Sleep(2 * time.Millisecond)
	r.Got, r.Closed, r.Gone = got, codec.B2i(closed), codec.B2i(goroutinesWith("knxnet.serveUDPSocket") == 0)
	if r.Got == nil {
		r.Got = []string{}
	}
	o.Rec(r)
}

// Close while frames are pending that nobody reads (what Tunnel.Close does after its serve loop ended).
func runCloseUnread(o *codec.Out, t *testing.T, mode string) {
	r := blank("recv", mode, mode+"-close-unread")
	frames := [][]byte{knxnet.AllocAndPack(&knxnet.DiscRes{Channel: 1}), knxnet.AllocAndPack(&knxnet.TunnelRes{Channel: 1, SeqNumber: 2})}
	var sock *knxnet.TunnelSocket
	var stop func()
	if mode == "udp" {
		s, peer, caddr := udpPair(t)
		sock, stop = s, func() { peer.Close() }
		for _, f := range frames {
			peer.WriteToUDP(f, caddr)
		}
	} else {
		s, peer, l := tcpPair(t)
		sock, stop = s, func() { peer.Close(); l.Close() }
		for _, f := range frames {
			peer.Write(f)
		}
	}
	time.Sleep(5 * time.Millisecond) // the receiver now holds the first frame and waits for a reader
	sock.Close()
	time.Sleep(20 * time.Millisecond)
	name := map[string]string{"udp": "knxnet.serveUDPSocket", "tcp": "knxnet.serveTCPSocket"}[mode]
	r.Gone = codec.B2i(goroutinesWith(name) == 0)
	// a range loop over Inbound must end: drain whatever was pending, then the channel has to be closed
	got, closed := collect(sock.Inbound(), 0, 200*time.Millisecond)
	r.Closed = codec.B2i(closed)
	_ = got
	r.Tag += fmt.Sprintf(":pending=%d", len(got))
	stop()
	o.Rec(r)
}

// ---- TCP receive with scripted segmentation -------------------------------------------------------

func tcpPair(t *testing.T) (*knxnet.TunnelSocket, *net.TCPConn, net.Listener) {
	l, err := net.Listen("tcp4", "127.0.0.1:0")
	if err != nil {
		t.Fatal(err)
	}
	acc := make(chan *net.TCPConn, 1)
	go func() {
		c, err := l.Accept()
		if err == nil {
			acc <- c.(*net.TCPConn)
		}
	}()
	sock, err := knxnet.DialTunnelTCP(l.Addr().String())
	if err != nil {
		t.Fatal(err)
	}
	peer := <-acc
	peer.SetNoDelay(true)
	return sock, peer, l
}

func runTCPRecv(o *codec.Out, t *testing.T, frames [][]byte, cuts []int, tag string, closeMode string) {
	sock, peer, l := tcpPair(t)
	defer l.Close()
	r := blank("recv", "tcp", tag)
	var stream []byte
	for _, f := range frames {
		stream = append(stream, f...)
		r.Sent = append(r.Sent, fr(f))
	}
	var wg sync.WaitGroup
	wg.Add(1)
	var got []string
	var closed bool
	go func() {
		defer wg.Done()
		got, closed = collect(sock.Inbound(), 0, 400*time.Millisecond)
	}()
	pos := 0
	for _, c := range append(cuts, len(stream)) {
		if c <= pos || c > len(stream) {
			continue
		}
		peer.Write(stream[pos:c])
		r.Segs = append(r.Segs, c-pos)
		pos = c
		time.Sleep(250 * time.Microsecond)
	}
	if closeMode == "peer" {
		time.Sleep(3 * time.Millisecond)
		peer.Close()
	}
	wg.Wait()
	if closeMode != "peer" {
		sock.Close()
		if !closed {
			more, c := collect(sock.Inbound(), 0, 300*time.Millisecond)
			got = append(got, more...)
			closed = c
		}
		peer.Close()
	} else {
		sock.Close()
	}
	time.Sleep(2 * time.Millisecond)
	r.Got, r.Closed, r.Gone = got, codec.B2i(closed), codec.B2i(goroutinesWith("knxnet.serveTCPSocket") == 0)
	if r.Got == nil {
		r.Got = []string{}
	}
	o.Rec(r)
}

// runTCPStall: the peer does not read for `stall`, the client keeps sending until a Send blocks; then the peer reads
// everything. Whatever Send reported, the byte stream must parse into whole frames that were sent, in order.
func runTCPStall(o *codec.Out, t *testing.T, stall time.Duration) {
	sock, peer, l := tcpPair(t)
	defer l.Close()
	defer peer.Close()
	r := blank("send", "tcp", "stalled-peer")
	raw := make([]byte, 30000)
	stop := time.Now().Add(stall)
	var sent [][]byte
	var mu sync.Mutex
	done := make(chan struct{})
	go func() {
		defer close(done)
		for i := 0; time.Now().Before(stop) && i < 20000; i++ {
			raw[0], raw[1], raw[2] = byte(i), byte(i>>8), byte(i>>16)
			f := &knxnet.RoutingInd{Payload: &cemi.LRawReq{LRaw: append([]byte(nil), raw...)}}
			b := knxnet.AllocAndPack(f)
			mu.Lock()
			sent = append(sent, b)
			mu.Unlock()
			if sock.Send(f) != nil {
				// a failed Send may or may not have written (part of) its frame; the socket stays in use
				continue
			}
		}
	}()
	time.Sleep(stall + 200*time.Millisecond)
	// the peer resumes reading; the sender goroutine finishes (its pending Send completes or fails)
	var stream []byte
	buf := make([]byte, 1<<20)
	for {
		peer.SetReadDeadline(time.Now().Add(400 * time.Millisecond))
		n, err := peer.Read(buf)
		stream = append(stream, buf[:n]...)
		if err != nil {
			break
		}
	}
	<-done
	sock.Close()
	// parse: every frame in the stream must be exactly one of the frames handed to Send, in order (frames whose Send
	// failed may be missing entirely, never partially)
	mu.Lock()
	defer mu.Unlock()
	pos, idx, ok := 0, 0, true
	for pos < len(stream) {
		if len(stream)-pos < 6 {
			ok = false
			break
		}
		tl := int(stream[pos+4])<<8 | int(stream[pos+5])
		if tl < 6 || pos+tl > len(stream) {
			// the stream may end inside the frame that was in flight when the peer stopped reading for good
			ok = pos+tl > len(stream) && tl >= 6 && tl == len(sent[0])
			break
		}
		fr := stream[pos : pos+tl]
		for idx < len(sent) && string(sent[idx]) != string(fr) {
			idx++
		}
		if idx == len(sent) {
			ok = false
			break
		}
		idx++
		pos += tl
	}
	r.Contig = codec.B2i(ok)
	r.Sent, r.Peer = []frameRec{}, []string{}
	o.Rec(r)
}

// ---- send side: concurrent senders -----------------------------------------------------------------

func runSend(o *codec.Out, t *testing.T, mode string, senders, per int) {
	r := blank("send", mode, fmt.Sprintf("%dx%d", senders, per))
	var sock *knxnet.TunnelSocket
	var mu sync.Mutex
	var wgPeer sync.WaitGroup
	total := senders * per
	if mode == "udp" {
		s, peer, _ := udpPair(t)
		sock = s
		defer peer.Close()
		wgPeer.Add(1)
		go func() {
			defer wgPeer.Done()
			buf := make([]byte, 65536)
			for i := 0; i < total; i++ {
				peer.SetReadDeadline(time.Now().Add(500 * time.Millisecond))
				n, _, err := peer.ReadFromUDP(buf)
				if err != nil {
					return
				}
				mu.Lock()
				r.Peer = append(r.Peer, hex.EncodeToString(buf[:n]))
				mu.Unlock()
			}
		}()
	} else {
		s, peer, l := tcpPair(t)
		sock = s
		defer l.Close()
		defer peer.Close()
		wgPeer.Add(1)
		go func() {
			defer wgPeer.Done()
			var stream []byte
			buf := make([]byte, 65536)
			for {
				peer.SetReadDeadline(time.Now().Add(300 * time.Millisecond))
				n, err := peer.Read(buf)
				stream = append(stream, buf[:n]...)
				if err != nil {
					break
				}
			}
			// parse the stream into frames by their headers
			contig := 1
			for len(stream) > 0 {
				if len(stream) < 6 || stream[0] != 6 || stream[1] != 0x10 {
					contig = 0
					break
				}
				l := int(stream[4])<<8 | int(stream[5])
				if l < 6 || l > len(stream) {
					contig = 0
					break
				}
				r.Peer = append(r.Peer, hex.EncodeToString(stream[:l]))
				stream = stream[l:]
			}
			r.Contig = contig
		}()
	}
	var wg sync.WaitGroup
	for g := 0; g < senders; g++ {
		wg.Add(1)
		go func(g int) {
			defer wg.Done()
			for i := 0; i < per; i++ {
				var p knxnet.ServicePackable
				pid := g*1000 + i
				switch i % 3 {
				case 0:
					p = &knxnet.TunnelReq{Channel: uint8(g), SeqNumber: uint8(i), Payload: payload(pid)}
				case 1:
					raw := bytes.Repeat([]byte{byte(g)}, 1+(i*37)%400)
					p = &knxnet.RoutingInd{Payload: &cemi.LRawReq{LRaw: raw}}
				default:
					p = &knxnet.ConnStateReq{Channel: uint8(g), Status: knxnet.ErrCode(i)}
				}
				b := knxnet.AllocAndPack(p)
				if err := sock.Send(p); err == nil {
					mu.Lock()
					r.Sent = append(r.Sent, fr(b))
					mu.Unlock()
				}
			}
		}(g)
	}
	wg.Wait()
	if mode == "tcp" {
		time.Sleep(5 * time.Millisecond)
		sock.Close()
	}
	wgPeer.Wait()
	if mode == "udp" {
		r.Contig = 1
		sock.Close()
	}
	o.Rec(r)
}

// ---- the connect request advertises the right endpoint ----------------------------------------------

func hostInts(h knxnet.HostInfo) []int {
	return []int{int(h.Protocol), int(h.Address[0]), int(h.Address[1]), int(h.Address[2]), int(h.Address[3]), int(h.Port)}
}

func runHPAI(o *codec.Out, t *testing.T, tcp, sendLocal bool) {
	mode := "udp"
	if tcp {
		mode = "tcp"
	}
	r := blank("hpai", mode, "")
	r.SendLocal = codec.B2i(sendLocal)
	got := make(chan []byte, 1)
	var addr string
	var cleanup func()
	if tcp {
		l, _ := net.Listen("tcp4", "127.0.0.1:0")
		addr = l.Addr().String()
		cleanup = func() { l.Close() }
		go func() {
			c, err := l.Accept()
			if err != nil {
				return
			}
			defer c.Close()
			buf := make([]byte, 1024)
			n, _ := c.Read(buf)
			r.Local = addrInts(c.RemoteAddr())
			got <- append([]byte{}, buf[:n]...)
			c.Write(knxnet.AllocAndPack(&knxnet.ConnRes{Channel: 5, Status: 0, Control: knxnet.HostInfo{Protocol: 2}}))
			time.Sleep(50 * time.Millisecond)
		}()
	} else {
		pc, _ := net.ListenUDP("udp4", &net.UDPAddr{IP: net.IPv4(127, 0, 0, 1)})
		addr = pc.LocalAddr().String()
		cleanup = func() { pc.Close() }
		go func() {
			buf := make([]byte, 1024)
			pc.SetReadDeadline(time.Now().Add(time.Second))
			n, from, err := pc.ReadFromUDP(buf)
			if err != nil {
				return
			}
			r.Local = addrInts(from)
			got <- append([]byte{}, buf[:n]...)
			pc.WriteToUDP(knxnet.AllocAndPack(&knxnet.ConnRes{Channel: 5, Status: 0, Control: knxnet.HostInfo{Protocol: 1}}), from)
		}()
	}
	defer cleanup()
	tun, err := knx.NewTunnel(addr, knxnet.TunnelLayerData, knx.TunnelConfig{ResendInterval: 100 * time.Millisecond, ResponseTimeout: time.Second,
		HeartbeatInterval: time.Hour, SendLocalAddress: sendLocal, UseTCP: tcp})
	select {
	case b := <-got:
		var s knxnet.Service
		if _, e := knxnet.Unpack(b, &s); e == nil {
			if cr, ok := s.(*knxnet.ConnReq); ok {
				r.Ctl, r.Tun = hostInts(cr.Control), hostInts(cr.Tunnel)
			}
		}
	case <-time.After(time.Second):
	}
	if err == nil {
		tun.Close()
	}
	o.Rec(r)
}

// runHPAIRepeated: a UDP gateway that lets `skip` connect requests go unanswered before it accepts, then ends the connection
// (disconnect request) and again lets `skip` requests of the reconnect go unanswered: EVERY connect request the client
// transmits - the first, the repetitions, those of the reconnect - is recorded and judged like the first one.
func runHPAIRepeated(o *codec.Out, t *testing.T, sendLocal bool, skip int) {
	pc, _ := net.ListenUDP("udp4", &net.UDPAddr{IP: net.IPv4(127, 0, 0, 1)})
	defer pc.Close()
	var mu sync.Mutex
	var recs []sockRec
	done := make(chan struct{})
	go func() {
		defer close(done)
		buf := make([]byte, 1024)
		seen, phase := 0, 0
		for {
			pc.SetReadDeadline(time.Now().Add(1500 * time.Millisecond))
			n, from, err := pc.ReadFromUDP(buf)
			if err != nil {
				return
			}
			var s knxnet.Service
			if _, e := knxnet.Unpack(buf[:n], &s); e != nil {
				continue
			}
			switch m := s.(type) {
			case *knxnet.ConnReq:
				r := blank("hpai", "udp", "")
				r.SendLocal = codec.B2i(sendLocal)
				r.Local = addrInts(from)
				r.Ctl, r.Tun = hostInts(m.Control), hostInts(m.Tunnel)
				mu.Lock()
				recs = append(recs, r)
				mu.Unlock()
				seen++
				if seen > skip {
					seen = 0
					pc.WriteToUDP(knxnet.AllocAndPack(&knxnet.ConnRes{Channel: uint8(5 + phase), Status: 0, Control: knxnet.HostInfo{Protocol: 1}}), from)
					if phase == 0 {
						time.Sleep(20 * time.Millisecond)
						pc.WriteToUDP(knxnet.AllocAndPack(&knxnet.DiscReq{Channel: 5, Status: 0, Control: knxnet.HostInfo{Protocol: 1}}), from)
					} else {
						return
					}
					phase++
				}
			}
		}
	}()
	tun, err := knx.NewTunnel(pc.LocalAddr().String(), knxnet.TunnelLayerData, knx.TunnelConfig{ResendInterval: 25 * time.Millisecond,
		ResponseTimeout: time.Second, HeartbeatInterval: time.Hour, SendLocalAddress: sendLocal})
	select {
	case <-done:
	case <-time.After(4 * time.Second):
	}
	if err == nil {
		tun.Close()
	}
	mu.Lock()
	for _, r := range recs {
		o.Rec(r)
	}
	mu.Unlock()
}

func addrInts(a net.Addr) []int {
	var ip net.IP
	var port int
	switch a := a.(type) {
	case *net.UDPAddr:
		ip, port = a.IP, a.Port
	case *net.TCPAddr:
		ip, port = a.IP, a.Port
	}
	ip = ip.To4()
	if ip == nil {
		return []int{}
	}
	return []int{0, int(ip[0]), int(ip[1]), int(ip[2]), int(ip[3]), port}
}

func TestC16(t *testing.T) {
	o, err := codec.Open("VERIF_OUT")
	if err != nil {
		t.Skip(err)
	}
	defer o.Close()
	rng := codec.Rng()
	q := !codec.Thorough()
	// UDP: one datagram per frame, well-formed streams; frame sizes up to the largest typed frame and raw payloads
	for i := 0; i < map[bool]int{true: 6, false: 40}[q]; i++ {
		runUDPRecv(o, t, frameSet(1+rng.Intn(50), rng, false, 500), "udp-wf", "local")
	}
	runUDPRecv(o, t, frameSet(30, rng, false, 1500), "udp-large", "local")
	// a consumer that is momentarily busy while datagrams keep arriving (the receiver must hold them back in order)
	collectPause = 1500 * time.Microsecond
	for i := 0; i < map[bool]int{true: 3, false: 12}[q]; i++ {
		runUDPRecv(o, t, frameSet(12+rng.Intn(18), rng, false, 300), "udp-slow-consumer", "local")
	}
	for i := 0; i < map[bool]int{true: 4, false: 16}[q]; i++ {
		runUDPRecv(o, t, frameSet(10+rng.Intn(20), rng, false, 200), "udp-burst-slow-consumer", "local")
	}
	collectPause = 0
	// stray datagrams (undecodable, empty-bodied, truncated) between the frames: they are dropped, the rest stays in order
	for i := 0; i < map[bool]int{true: 3, false: 12}[q]; i++ {
		var seq [][]byte
		for j, f := range frameSet(15+rng.Intn(20), rng, false, 200) {
			seq = append(seq, f)
			if j%4 == 1 {
				seq = append(seq, []byte{6, 0x10, 0x04, 0x20, 0, 9, 1, 2, 3}, f[:6])
			}
		}
		runUDPRecv(o, t, seq, "udp-stray", "local")
	}
	// frame sizes around and beyond 1 KiB, up to the largest frame the library can encode in one datagram
	var big [][]byte
	for _, n := range []int{900, 1000, 1010, 1017, 1018, 1019, 1024, 1100, 1400, 4000, 60000} {
		raw := make([]byte, n)
		for j := range raw {
			raw[j] = byte(rng.Intn(256))
		}
		big = append(big, knxnet.AllocAndPack(&knxnet.RoutingInd{Payload: &cemi.LRawReq{LRaw: raw}}))
		big = append(big, knxnet.AllocAndPack(&knxnet.TunnelRes{Channel: 1, SeqNumber: uint8(n), Status: 0}))
	}
	runUDPRecv(o, t, big, "udp-sizes", "local")
	// TCP: every single cut position of a short stream, 1-byte dribble, seeded arbitrary coalescing
	fs := frameSet(3, rng, false, 20)
	total := 0
	for _, f := range fs {
		total += len(f)
	}
	step := 1
	if q {
		step = 3
	}
	for c := 1; c < total; c += step {
		runTCPRecv(o, t, fs, []int{c}, "tcp-cut1", "local")
	}
	var dribble []int
	for c := 1; c < total; c++ {
		dribble = append(dribble, c)
	}
	runTCPRecv(o, t, fs, dribble, "tcp-dribble", "peer")
	for i := 0; i < map[bool]int{true: 10, false: 80}[q]; i++ {
		fs := frameSet(1+rng.Intn(50), rng, false, map[bool]int{true: 600, false: 60000}[i%5 == 0])
		n := 0
		for _, f := range fs {
			n += len(f)
		}
		var cuts []int
		for c := 1 + rng.Intn(40); c < n; c += 1 + rng.Intn(1+n/(1+rng.Intn(20))) {
			cuts = append(cuts, c)
		}
		runTCPRecv(o, t, fs, cuts, "tcp-random", []string{"local", "peer"}[i%2])
	}
	runCloseUnread(o, t, "udp")
	runCloseUnread(o, t, "tcp")
	// concurrent senders
	for _, s := range []int{1, 2, 8} {
		runSend(o, t, "udp", s, 30)
		runSend(o, t, "tcp", s, 30)
	}
	// a TCP peer that stops reading for a while: Sends block (or fail), but the stream stays a sequence of whole frames
	runTCPStall(o, t, 3300*time.Millisecond)
	// connect request endpoints
	for _, tcp := range []bool{false, true} {
		for _, sl := range []bool{false, true} {
			runHPAI(o, t, tcp, sl)
		}
	}
	// ... and every later one: repetitions towards a gateway that is slow to answer, connect requests of a reconnect
	for _, sl := range []bool{false, true} {
		runHPAIRepeated(o, t, sl, 5)
	}
}

// TestC01Recv: malformed frames interleaved with well-formed ones through live UDP / TCP receivers.
func TestC01Recv(t *testing.T) {
	o, err := codec.Open("VERIF_OUT")
	if err != nil {
		t.Skip(err)
	}
	defer o.Close()
	rng := codec.Rng()
	n := 8
	if codec.Thorough() {
		n = 60
	}
	for i := 0; i < n; i++ {
		// UDP: arbitrary garbage datagrams and truncations of earlier, longer datagrams in between
		fs := frameSet(20+rng.Intn(30), rng, true, 300)
		var seq [][]byte
		for j, f := range fs {
			seq = append(seq, f)
			if j%3 == 1 && len(f) > 10 {
				seq = append(seq, f[:6+rng.Intn(len(f)-6)]) // a truncation of the datagram just sent
			}
			if j%7 == 2 {
				g := make([]byte, rng.Intn(40))
				for k := range g {
					g[k] = byte(rng.Intn(256))
				}
				seq = append(seq, g)
			}
		}
		runUDPRecv(o, t, seq, "udp-malformed", "local")
		// TCP: frames with valid header and truthful total length but malformed body, large frames
		tf := frameSet(10+rng.Intn(20), rng, true, map[bool]int{true: 300, false: 9000}[i%2 == 0])
		tot := 0
		for _, f := range tf {
			tot += len(f)
		}
		var cuts []int
		for c := 1 + rng.Intn(30); c < tot; c += 1 + rng.Intn(200) {
			cuts = append(cuts, c)
		}
		runTCPRecv(o, t, tf, cuts, "tcp-malformed", "local")
	}
}
