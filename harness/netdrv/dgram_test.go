//go:build verif

package netdrv

import (
	"net"
	"os"
	"strconv"
	"testing"
	"time"

	"github.com/vapourismo/knx-go/knx/cemi"
	"github.com/vapourismo/knx-go/knx/knxnet"

	"verif/harness/codec"
)

func payloadN(data []byte) cemi.Message {
	return &cemi.LDataInd{LData: cemi.LData{Control1: 0xbc, Control2: 0xe0, Source: 0x1107, Destination: 0x0a03,
		Data: &cemi.AppData{Command: cemi.GroupValueWrite, Data: data}}}
}

type dgramRec struct {
	K    string `json:"k"`
	Via  string `json:"via"`  // tunnel-udp | router
	Want int    `json:"want"` // len(AllocAndPack(frame))
	Hdr  int    `json:"hdr"`  // total length announced in the received datagram's header
	DLen int    `json:"dlen"` // length of the datagram the peer received (-1: none)
	Same int    `json:"same"` // the received bytes are exactly the frame
}

// TestC15Datagram: what leaves a real UDP socket is exactly one frame per datagram - the datagram is as long as the
// header says, whatever was sent before (longer frames first, then shorter ones, repeatedly).
func TestC15Datagram(t *testing.T) {
	o, err := codec.Open("VERIF_OUT")
	if err != nil {
		t.Skip(err)
	}
	defer o.Close()
	rng := codec.Rng()
	sizes := []int{200, 3, 90, 1, 254, 7, 7, 120, 2}
	for i := 0; i < 12; i++ {
		sizes = append(sizes, 1+rng.Intn(254))
	}
	frames := func() []knxnet.ServicePackable {
		var fs []knxnet.ServicePackable
		for i, n := range sizes {
			data := make([]byte, n)
			for j := range data {
				data[j] = byte(rng.Intn(256))
			}
			data[0] &= 0x3f
			m := payloadN(data)
			if i%3 == 2 {
				fs = append(fs, &knxnet.TunnelRes{Channel: 1, SeqNumber: uint8(i)})
			}
			fs = append(fs, &knxnet.RoutingInd{Payload: m})
		}
		return fs
	}
	run := func(via string, send func(knxnet.ServicePackable) error, peer *net.UDPConn) {
		buf := make([]byte, 70000)
		for _, f := range frames() {
			want := knxnet.AllocAndPack(f)
			r := dgramRec{K: "dgram", Via: via, Want: len(want), DLen: -1}
			if err := send(f); err == nil {
				peer.SetReadDeadline(time.Now().Add(300 * time.Millisecond))
				if n, _, err := peer.ReadFromUDP(buf); err == nil {
					r.DLen = n
					if n >= 6 {
						r.Hdr = int(buf[4])<<8 | int(buf[5])
					}
					r.Same = codec.B2i(n == len(want) && string(buf[:n]) == string(want))
				}
			}
			o.Rec(r)
		}
	}
	// tunnel socket (connected UDP)
	gw, err := net.ListenUDP("udp4", &net.UDPAddr{IP: net.IPv4(127, 0, 0, 1)})
	if err != nil {
		t.Fatal(err)
	}
	ts, err := knxnet.DialTunnelUDP(gw.LocalAddr().String())
	if err != nil {
		t.Fatal(err)
	}
	run("tunnel-udp", ts.Send, gw)
	ts.Close()
	gw.Close()
	// router socket (multicast, loopback on so that a second member of the group on this host sees the datagrams)
	group := "239.78." + strconv.Itoa(1+os.Getpid()%250) + ".78:" + strconv.Itoa(38000+os.Getpid()%2000)
	rs, err := knxnet.ListenRouterOnInterface(nil, group, true)
	if err != nil {
		t.Logf("router socket not available here: %v", err)
		return
	}
	defer rs.Close()
	gaddr, _ := net.ResolveUDPAddr("udp4", group)
	peer, err := net.ListenMulticastUDP("udp4", nil, gaddr)
	if err != nil {
		t.Logf("multicast listener not available here: %v", err)
		return
	}
	defer peer.Close()
	go func() {
		for range rs.Inbound() { // the router socket hears itself: drain
		}
	}()
	// probe: is the group usable at all? (no verdict otherwise)
	if err := rs.Send(&knxnet.TunnelRes{Channel: 9}); err == nil {
		peer.SetReadDeadline(time.Now().Add(300 * time.Millisecond))
		b := make([]byte, 100)
		if _, _, err := peer.ReadFromUDP(b); err != nil {
			t.Logf("multicast loopback not usable here: %v", err)
			return
		}
	}
	run("router", rs.Send, peer)
}
