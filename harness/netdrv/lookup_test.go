//go:build verif

package netdrv

import (
	"net"
	"strconv"
	"strings"
	"testing"
	"time"

	"golang.org/x/net/ipv4"

	"github.com/vapourismo/knx-go/knx"
	"github.com/vapourismo/knx-go/knx/knxnet"

	"verif/harness/codec"
)

type scriptEntry struct {
	D int    `json:"d"` // microseconds after the request (describe) / after the call (discover)
	K string `json:"k"` // descr | search | other | malformed
}

type lookupRec struct {
	K        string        `json:"k"`
	Op       string        `json:"op"` // describe | discover
	Timeout  int           `json:"timeout"`
	Script   []scriptEntry `json:"script"`
	Reqs     int           `json:"reqs"`
	HpaiOK   int           `json:"hpaiok"`
	Found    []int         `json:"found"` // indices (1-based) of the script entries returned, in order
	Err      int           `json:"err"`
	Elapsed  int           `json:"elapsed"`
	Released int           `json:"released"`
	Slack    int           `json:"slack"`
}

func descrFrame(i int) []byte {
	r := knxnet.DescriptionRes(knxnet.DescriptionBlock{DeviceHardware: knxnet.DeviceInformationBlock{Type: 1, Medium: 2, HardwareAddr: make([]byte, 6),
		FriendlyName: "resp-" + strconv.Itoa(i)}, SupportedServices: knxnet.SupportedServicesDIB{Type: 2}})
	return knxnet.AllocAndPack(&r)
}

func searchFrame(i int) []byte {
	return knxnet.AllocAndPack(&knxnet.SearchRes{Control: knxnet.HostInfo{Protocol: 1, Address: knxnet.Address{10, 0, 0, byte(i)}, Port: 3671},
		DescriptionB: knxnet.DescriptionBlock{DeviceHardware: knxnet.DeviceInformationBlock{Type: 1, Medium: 2, HardwareAddr: make([]byte, 6),
			FriendlyName: "resp-" + strconv.Itoa(i)}, SupportedServices: knxnet.SupportedServicesDIB{Type: 2}}})
}

func frameFor(kind string, i int) []byte {
	switch kind {
	case "descr":
		return descrFrame(i)
	case "search":
		return searchFrame(i)
	case "other":
		return knxnet.AllocAndPack(&knxnet.ConnStateRes{Channel: 1})
	}
	return []byte{6, 0x10, 0x02, 0x04, 0, 9, 200, 1, 1}
}

func idxOfName(n string) int {
	if !strings.HasPrefix(n, "resp-") {
		return 0
	}
	i, _ := strconv.Atoi(n[5:])
	return i
}

func runDescribe(o *codec.Out, t *testing.T, timeout time.Duration, script []scriptEntry, slack time.Duration) {
	pc, err := net.ListenUDP("udp4", &net.UDPAddr{IP: net.IPv4(127, 0, 0, 1)})
	if err != nil {
		t.Fatal(err)
	}
	defer pc.Close()
	r := lookupRec{K: "lookup", Op: "describe", Timeout: int(timeout / time.Microsecond), Script: script, Found: []int{}, Slack: int(slack / time.Microsecond)}
	var clientAddr *net.UDPAddr
	done := make(chan struct{})
	go func() {
		defer close(done)
		buf := make([]byte, 2048)
		for {
			pc.SetReadDeadline(time.Now().Add(timeout + 300*time.Millisecond))
			n, from, err := pc.ReadFromUDP(buf)
			if err != nil {
				return
			}
			r.Reqs++
			if r.Reqs > 1 {
				continue
			}
			clientAddr = from
			var s knxnet.Service
			if _, e := knxnet.Unpack(buf[:n], &s); e == nil {
				if dr, ok := s.(*knxnet.DescriptionReq); ok {
					ip := from.IP.To4()
					r.HpaiOK = codec.B2i(dr.Protocol == knxnet.UDP4 && int(dr.Port) == from.Port && ip != nil &&
						dr.Address == knxnet.Address{ip[0], ip[1], ip[2], ip[3]})
				}
			}
			start := time.Now()
			go func() {
				for i, e := range script {
					d := time.Duration(e.D)*time.Microsecond - time.Since(start)
					if d > 0 {
						time.Sleep(d)
					}
					pc.WriteToUDP(frameFor(e.K, i+1), from)
				}
			}()
		}
	}()
	t0 := time.Now()
	res, err := knx.DescribeTunnel(pc.LocalAddr().String(), timeout)
	r.Elapsed = int(time.Since(t0) / time.Microsecond)
	r.Err = codec.B2i(err != nil)
	if res != nil {
		r.Found = append(r.Found, idxOfName(res.DeviceHardware.FriendlyName))
	}
	// the socket must have been released: its port can be bound again right away
	time.Sleep(200 * time.Microsecond)
	if clientAddr != nil {
		if c, e := net.ListenUDP("udp4", &net.UDPAddr{IP: net.IPv4(127, 0, 0, 1), Port: clientAddr.Port}); e == nil {
			r.Released = 1
			c.Close()
		}
	}
	pc.SetReadDeadline(time.Now())
	<-done
	o.Rec(r)
}

const mcastAddr = "239.77.77.77:36711"

func runDiscover(o *codec.Out, t *testing.T, timeout time.Duration, script []scriptEntry, slack time.Duration) bool {
	grp, _ := net.ResolveUDPAddr("udp4", mcastAddr)
	// responder: an ordinary socket sending to the group with multicast loopback on
	rc, err := net.ListenUDP("udp4", &net.UDPAddr{IP: net.IPv4zero})
	if err != nil {
		return false
	}
	defer rc.Close()
	pc := ipv4.NewPacketConn(rc)
	pc.SetMulticastLoopback(true)
	r := lookupRec{K: "lookup", Op: "discover", Timeout: int(timeout / time.Microsecond), Script: script, Found: []int{}, Slack: int(slack / time.Microsecond), Reqs: 1, HpaiOK: 1}
	start := time.Now()
	stop := make(chan struct{})
	go func() {
		for i, e := range script {
			d := time.Duration(e.D)*time.Microsecond - time.Since(start)
			if d > 0 {
				select {
				case <-time.After(d):
				case <-stop:
					return
				}
			}
			rc.WriteToUDP(frameFor(e.K, i+1), grp)
		}
	}()
	t0 := time.Now()
	res, err := knx.Discover(mcastAddr, timeout)
	r.Elapsed = int(time.Since(t0) / time.Microsecond)
	close(stop)
	if err != nil {
		return false // the group cannot be joined in this environment: no verdict
	}
	for _, s := range res {
		r.Found = append(r.Found, idxOfName(s.DescriptionB.DeviceHardware.FriendlyName))
	}
	time.Sleep(200 * time.Microsecond)
	if c, e := net.ListenUDP("udp4", grp); e == nil {
		r.Released = 1
		c.Close()
	}
	o.Rec(r)
	return true
}

func TestC20(t *testing.T) {
	o, err := codec.Open("VERIF_OUT")
	if err != nil {
		t.Skip(err)
	}
	defer o.Close()
	rng := codec.Rng()
	slack := 25 * time.Millisecond
	timeouts := []time.Duration{time.Millisecond, 5 * time.Millisecond, 20 * time.Millisecond, 60 * time.Millisecond}
	if codec.Thorough() {
		timeouts = append(timeouts, 150*time.Millisecond, 500*time.Millisecond)
	}
	kinds := []string{"descr", "other", "malformed", "search"}
	reps := 6
	if codec.Thorough() {
		reps = 30
	}
	okMC := true
	for _, to := range timeouts {
		tus := int(to / time.Microsecond)
		for rep := 0; rep < reps; rep++ {
			var sc []scriptEntry
			switch rep % 6 {
			case 0: // immediately
				sc = []scriptEntry{{0, "descr"}}
			case 1: // never
				sc = nil
			case 2: // late (well after the timeout)
				sc = []scriptEntry{{tus + tus/2 + 40000, "descr"}}
			case 3: // other / malformed frames first, then the answer, then a repeat
				sc = []scriptEntry{{0, "other"}, {100, "malformed"}, {tus / 4, "descr"}, {tus / 3, "descr"}}
			case 4: // a flood of unrelated frames, no answer
				for i := 0; i < 20; i++ {
					sc = append(sc, scriptEntry{i * tus / 25, kinds[1+i%2]})
				}
			default: // seeded
				n := rng.Intn(8)
				d := 0
				for i := 0; i < n; i++ {
					d += rng.Intn(1 + tus/3)
					sc = append(sc, scriptEntry{d, kinds[rng.Intn(3)]})
				}
			}
			if sc == nil {
				sc = []scriptEntry{}
			}
			runDescribe(o, t, to, sc, slack)
			// discovery: the same arrival patterns with search responses (0..20 responders)
			ds := make([]scriptEntry, len(sc))
			for i, e := range sc {
				ds[i] = e
				if e.K == "descr" {
					ds[i].K = "search"
				} else if e.K == "search" {
					ds[i].K = "descr"
				}
			}
			if rep%6 == 0 {
				for i := 0; i < 20; i++ {
					ds = append(ds, scriptEntry{i * tus / 40, "search"})
				}
			}
			if okMC {
				okMC = runDiscover(o, t, to, ds, slack)
			}
		}
	}
	if !okMC {
		t.Log("multicast group not usable here: discovery half skipped")
	}
}
