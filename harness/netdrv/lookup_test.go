//go:build verif

package netdrv

import (
	"bufio"
	"encoding/hex"
	"encoding/json"
	"net"
	"os"
	"strconv"
	"strings"
	"sync/atomic"
	"testing"
	"time"

	"golang.org/x/net/ipv4"

	"github.com/vapourismo/knx-go/knx"
	"github.com/vapourismo/knx-go/knx/knxnet"

	"verif/harness/codec"
)

type scriptEntry struct {
	D int    `json:"d"` // microseconds after the request (describe) / after the call (discover)
	K string `json:"k"` // descr | search | other | malformed
}

type lookupRec struct {
	K        string        `json:"k"`
	Op       string        `json:"op"` // describe | discover
	Timeout  int           `json:"timeout"`
	Script   []scriptEntry `json:"script"`
	Reqs     int           `json:"reqs"`
	HpaiOK   int           `json:"hpaiok"`
	Found    []int         `json:"found"` // indices (1-based) of the script entries returned, in order
	Err      int           `json:"err"`
	Elapsed  int           `json:"elapsed"`
	Released int           `json:"released"`
	Allowed  [][]int       `json:"allowed"` // table runs: the results Lookup.tla allows for this script (TLC-generated)
	Table    int           `json:"table"`
	Stall    int           `json:"stall"` // largest lateness of a 1 ms sleeper while the call ran, microseconds (machine load)
	Late     int           `json:"late"`  // largest lateness of a scripted send, microseconds
	Tol      int           `json:"tol"`   // lateness up to which the table verdict is strict
	Extra    []int         `json:"extra"` // describe: data of the additional (unknown) DIB of the returned response, read after the call
	Slack    int           `json:"slack"`
	Joined   int           `json:"joined"`  // discover: microseconds after the call at which the harness SAW the group membership in /proc/net/igmp (0 = not seen)
	Attempt  int           `json:"attempt"` // a call that overran its time bound is repeated (same script), at most twice
	Final    int           `json:"final"`   // 1 = no further attempt follows this record
}

// allowedElapsed mirrors the ReturnBound clause of Trace_Codec.tla (JLookup); it only decides whether a scenario is run
// again - the verdict stays with TLC, which judges every attempt's record.
func allowedElapsed(r *lookupRec) int {
	setup := 0
	if r.Op == "discover" {
		setup = 8000 + 2*r.Stall
		if r.Joined > 0 {
			setup = r.Joined + 500
		}
	}
	return r.Timeout + r.Slack + setup + 2*r.Stall
}

// finish numbers the attempt, logs the record and tells whether the scenario has to be run again: the socket set-up,
// send and close of a call are system calls whose latency (multicast join / leave: 10..70 ms now and then on this kind
// of machine, idle or not) no 1 ms sleeper measures, so one overrun says nothing about the library; a time bound
// counts as broken when the same scenario overruns three times in a row.
func finish(o *codec.Out, r *lookupRec, attempt int) (again bool) {
	r.Attempt = attempt
	again = r.Elapsed > allowedElapsed(r) && attempt < 3
	r.Final = codec.B2i(!again)
	o.Rec(*r)
	return again
}

// groupHex is the way /proc/net/igmp prints a group address
func groupHex(ip net.IP) string {
	b := ip.To4()
	return strings.ToUpper(hex.EncodeToString([]byte{b[3], b[2], b[1], b[0]}))
}

// watchJoin polls /proc/net/igmp until the group shows up (or stop is closed) and reports the microseconds since t0 at
// which it was SEEN (an upper bound of when the library's socket joined; 0 = never seen)
func watchJoin(grp net.IP, t0 time.Time, stop <-chan struct{}) <-chan int {
	res := make(chan int, 1)
	key := groupHex(grp)
	go func() {
		for {
			if b, err := os.ReadFile("/proc/net/igmp"); err == nil && strings.Contains(string(b), key) {
				res <- int(time.Since(t0) / time.Microsecond)
				return
			}
			select {
			case <-stop:
				res <- 0
				return
			case <-time.After(150 * time.Microsecond):
			}
		}
	}()
	return res
}

// withExtraDIB appends a manufacturer DIB (type 0xfe) carrying eight octets of value i and fixes the total length.
func withExtraDIB(fr []byte, i int) []byte {
	fr = append(fr, 10, 0xfe)
	for k := 0; k < 8; k++ {
		fr = append(fr, byte(i))
	}
	fr[4], fr[5] = byte(len(fr)>>8), byte(len(fr))
	return fr
}

func descrFrame(i int) []byte {
	r := knxnet.DescriptionRes(knxnet.DescriptionBlock{DeviceHardware: knxnet.DeviceInformationBlock{Type: 1, Medium: 2, HardwareAddr: make([]byte, 6),
		FriendlyName: "resp-" + strconv.Itoa(i)}, SupportedServices: knxnet.SupportedServicesDIB{Type: 2}})
	return withExtraDIB(knxnet.AllocAndPack(&r), i)
}

func searchFrame(i int) []byte {
	// (several devices announce the SAME control endpoint - devices behind one NAT, route-back endpoints 0.0.0.0:0 - every
	// response is a response of its own all the same)
	ctl := knxnet.HostInfo{Protocol: 1, Address: knxnet.Address{10, 0, 0, byte(i % 2)}, Port: 3671}
	if i%3 == 0 {
		ctl = knxnet.HostInfo{Protocol: 1}
	}
	return knxnet.AllocAndPack(&knxnet.SearchRes{Control: ctl,
		DescriptionB: knxnet.DescriptionBlock{DeviceHardware: knxnet.DeviceInformationBlock{Type: 1, Medium: 2, HardwareAddr: make([]byte, 6),
			FriendlyName: "resp-" + strconv.Itoa(i)}, SupportedServices: knxnet.SupportedServicesDIB{Type: 2}}})
}

// service identifiers other than the awaited one: every KNXnet/IP core, device management, tunnelling, routing,
// remote-logging and object-server type, the extended search types of later specification versions, and unassigned ones
var alienIDs = []uint16{0x0201, 0x0202, 0x0203, 0x0204, 0x0205, 0x0206, 0x0207, 0x0208, 0x0209, 0x020a, 0x020b, 0x020c, 0x020d, 0x020f,
	0x0310, 0x0311, 0x0420, 0x0421, 0x0422, 0x0530, 0x0531, 0x0532, 0x0600, 0x0740, 0x0950, 0x0000, 0x02ff, 0xffff}

// alienFrame is a well-formed answer body (the one the call waits for) under a different service type.
func alienFrame(want string, i int) []byte {
	var fr []byte
	own := uint16(0x0204)
	if want == "search" {
		fr = searchFrame(i)
		own = 0x0202
	} else {
		fr = descrFrame(i)
	}
	id := alienIDs[i%len(alienIDs)]
	if id == own {
		id = 0x020c
	}
	fr[2], fr[3] = byte(id>>8), byte(id)
	return fr
}

func frameFor(kind string, i int) []byte {
	switch kind {
	case "descr":
		return descrFrame(i)
	case "search":
		return searchFrame(i)
	case "cut-descr", "cut-search":
		// the awaited answer, cut short by eight octets while its header still announces the whole: malformed (a receiver
		// that believes the header completes it with whatever an earlier, longer datagram left in its buffer)
		fr := descrFrame(i)
		if kind == "cut-search" {
			fr = searchFrame(i)
		}
		return fr[:len(fr)-8]
	case "alien-descr":
		return alienFrame("descr", i)
	case "alien-search":
		return alienFrame("search", i)
	case "other":
		switch i % 4 {
		case 0:
			return knxnet.AllocAndPack(&knxnet.ConnStateRes{Channel: 1})
		case 1:
			return knxnet.AllocAndPack(&knxnet.ConnRes{Channel: 1})
		case 2:
			return knxnet.AllocAndPack(&knxnet.DiscReq{Channel: 1})
		}
		return knxnet.AllocAndPack(&knxnet.TunnelRes{Channel: 1})
	}
	// malformed: a valid header with an undecodable body, or a header that is itself broken (too short, wrong header
	// size, wrong protocol version) - none of them may disturb the receiver
	switch i % 4 {
	case 1:
		return []byte{6, 0x10, 0x02}
	case 2:
		return []byte{7, 0x10, 0x02, 0x04, 0, 10, 1, 2, 3, 4}
	case 3:
		return []byte{6, 0x20, 0x02, 0x04, 0, 8, 1, 2}
	}
	return []byte{6, 0x10, 0x02, 0x04, 0, 9, 200, 1, 1}
}

func idxOfName(n string) int {
	if !strings.HasPrefix(n, "resp-") {
		return 0
	}
	i, _ := strconv.Atoi(n[5:])
	return i
}

func runDescribe(o *codec.Out, t *testing.T, timeout time.Duration, script []scriptEntry, slack time.Duration, fill func(*lookupRec)) {
	for attempt := 1; describeOnce(o, t, timeout, script, slack, fill, attempt); attempt++ {
	}
}

func describeOnce(o *codec.Out, t *testing.T, timeout time.Duration, script []scriptEntry, slack time.Duration, fill func(*lookupRec), attempt int) (again bool) {
	pc, err := net.ListenUDP("udp4", &net.UDPAddr{IP: net.IPv4(127, 0, 0, 1)})
	if err != nil {
		t.Fatal(err)
	}
	defer pc.Close()
	r := lookupRec{K: "lookup", Op: "describe", Allowed: [][]int{}, Timeout: int(timeout / time.Microsecond), Script: script, Found: []int{}, Slack: int(slack / time.Microsecond)}
	var clientAddr *net.UDPAddr
	var late atomic.Int64
	done := make(chan struct{})
	go func() {
		defer close(done)
		buf := make([]byte, 2048)
		for {
			pc.SetReadDeadline(time.Now().Add(timeout + 300*time.Millisecond))
			n, from, err := pc.ReadFromUDP(buf)
			if err != nil {
				return
			}
			r.Reqs++
			if r.Reqs > 1 {
				continue
			}
			clientAddr = from
			var s knxnet.Service
			if _, e := knxnet.Unpack(buf[:n], &s); e == nil {
				if dr, ok := s.(*knxnet.DescriptionReq); ok {
					ip := from.IP.To4()
					r.HpaiOK = codec.B2i(dr.Protocol == knxnet.UDP4 && int(dr.Port) == from.Port && ip != nil &&
						dr.Address == knxnet.Address{ip[0], ip[1], ip[2], ip[3]})
				}
			}
			start := time.Now()
			go func() {
				for i, e := range script {
					d := time.Duration(e.D)*time.Microsecond - time.Since(start)
					if d > 0 {
						time.Sleep(d)
					}
					if l := int64((time.Since(start) - time.Duration(e.D)*time.Microsecond) / time.Microsecond); l > late.Load() {
						late.Store(l)
					}
					pc.WriteToUDP(frameFor(e.K, i+1), from)
				}
			}()
		}
	}()
	meter := stallMeter()
	t0 := time.Now()
	res, err := knx.DescribeTunnel(pc.LocalAddr().String(), timeout)
	r.Elapsed = int(time.Since(t0) / time.Microsecond)
	r.Stall = meter()
	r.Err = codec.B2i(err != nil)
	if res != nil {
		r.Found = append(r.Found, idxOfName(res.DeviceHardware.FriendlyName))
	}
	// the socket must have been released: its port can be bound again right away
	time.Sleep(300 * time.Microsecond)
	r.Extra = []int{}
	if res != nil && len(res.UnknownBlocks) > 0 {
		for _, b := range res.UnknownBlocks[0].Data {
			r.Extra = append(r.Extra, int(b))
		}
	}
	if clientAddr != nil {
		if c, e := net.ListenUDP("udp4", &net.UDPAddr{IP: net.IPv4(127, 0, 0, 1), Port: clientAddr.Port}); e == nil {
			r.Released = 1
			c.Close()
		}
	}
	pc.SetReadDeadline(time.Now())
	<-done
	r.Late = int(late.Load())
	if fill != nil {
		fill(&r)
	}
	return finish(o, &r, attempt)
}

// one group and port per process, so that two checks running at the same time on one host do not hear each other
var mcastAddr = "239.77." + strconv.Itoa(1+os.Getpid()%250) + ".77:" + strconv.Itoa(36000+os.Getpid()%2000)

func runDiscover(o *codec.Out, t *testing.T, timeout time.Duration, script []scriptEntry, slack time.Duration, fill func(*lookupRec)) bool {
	for attempt := 1; ; attempt++ {
		ok, again := discoverOnce(o, t, timeout, script, slack, fill, attempt)
		if !ok || !again {
			return ok
		}
	}
}

func discoverOnce(o *codec.Out, t *testing.T, timeout time.Duration, script []scriptEntry, slack time.Duration, fill func(*lookupRec), attempt int) (ok, again bool) {
	grp, _ := net.ResolveUDPAddr("udp4", mcastAddr)
	// responder: an ordinary socket sending to the group with multicast loopback on
	rc, err := net.ListenUDP("udp4", &net.UDPAddr{IP: net.IPv4zero})
	if err != nil {
		return false, false
	}
	defer rc.Close()
	pc := ipv4.NewPacketConn(rc)
	pc.SetMulticastLoopback(true)
	r := lookupRec{K: "lookup", Op: "discover", Allowed: [][]int{}, Extra: []int{}, Timeout: int(timeout / time.Microsecond), Script: script, Found: []int{}, Slack: int(slack / time.Microsecond), Reqs: 1, HpaiOK: 1}
	var late atomic.Int64
	start := time.Now()
	stop := make(chan struct{})
	go func() {
		for i, e := range script {
			d := time.Duration(e.D)*time.Microsecond - time.Since(start)
			if d > 0 {
				select {
				case <-time.After(d):
				case <-stop:
					return
				}
			}
			if l := int64((time.Since(start) - time.Duration(e.D)*time.Microsecond) / time.Microsecond); l > late.Load() {
				late.Store(l)
			}
			rc.WriteToUDP(frameFor(e.K, i+1), grp)
		}
	}()
	meter := stallMeter()
	t0 := time.Now()
	joined := watchJoin(grp.IP, t0, stop)
	res, err := knx.Discover(mcastAddr, timeout)
	r.Elapsed = int(time.Since(t0) / time.Microsecond)
	r.Stall = meter()
	close(stop)
	r.Joined = <-joined
	if err != nil {
		return false, false // the group cannot be joined in this environment: no verdict
	}
	for _, s := range res {
		r.Found = append(r.Found, idxOfName(s.DescriptionB.DeviceHardware.FriendlyName))
	}
	time.Sleep(200 * time.Microsecond)
	if c, e := net.ListenUDP("udp4", grp); e == nil {
		r.Released = 1
		c.Close()
	}
	r.Late = int(late.Load())
	if fill != nil {
		fill(&r)
	}
	return true, finish(o, &r, attempt)
}

func TestC20(t *testing.T) {
	o, err := codec.Open("VERIF_OUT")
	if err != nil {
		t.Skip(err)
	}
	defer o.Close()
	rng := codec.Rng()
	slack := 25 * time.Millisecond
	timeouts := []time.Duration{time.Millisecond, 5 * time.Millisecond, 20 * time.Millisecond, 60 * time.Millisecond}
	if codec.Thorough() {
		timeouts = append(timeouts, 150*time.Millisecond, 500*time.Millisecond)
	}
	kinds := []string{"descr", "other", "malformed", "search"}
	reps := 8
	if codec.Thorough() {
		reps = 32
	}
	okMC := true
	for _, to := range timeouts {
		tus := int(to / time.Microsecond)
		for rep := 0; rep < reps; rep++ {
			var sc []scriptEntry
			switch rep % 8 {
			case 0: // immediately
				sc = []scriptEntry{{0, "descr"}}
			case 1: // never
				sc = nil
			case 2: // late (well after the timeout)
				sc = []scriptEntry{{tus + tus/2 + 40000, "descr"}}
			case 3: // other / malformed frames first, then the answer, then a repeat
				sc = []scriptEntry{{0, "other"}, {100, "malformed"}, {200, "alien-descr"}, {300, "cut-descr"}, {tus / 4, "descr"}, {tus / 4 + 100, "cut-descr"}, {tus / 3, "descr"}}
			case 4: // a flood of unrelated frames, no answer
				for i := 0; i < 20; i++ {
					sc = append(sc, scriptEntry{i * tus / 25, kinds[1+i%2]})
				}
			case 5: // two different answers back to back (the second must not disturb the first)
				sc = []scriptEntry{{0, "descr"}, {0, "descr"}, {0, "descr"}}
			case 6: // well-formed answer bodies under every other service type, then nothing
				for i := 0; i < len(alienIDs); i++ {
					sc = append(sc, scriptEntry{i * tus / 60, "alien-descr"})
				}
			default: // seeded
				n := rng.Intn(8)
				d := 0
				for i := 0; i < n; i++ {
					d += rng.Intn(1 + tus/3)
					sc = append(sc, scriptEntry{d, kinds[rng.Intn(3)]})
				}
			}
			if sc == nil {
				sc = []scriptEntry{}
			}
			runDescribe(o, t, to, sc, slack, nil)
			// discovery: the same arrival patterns with search responses (0..20 responders)
			ds := make([]scriptEntry, len(sc))
			for i, e := range sc {
				ds[i] = e
				if e.K == "descr" {
					ds[i].K = "search"
				} else if e.K == "search" {
					ds[i].K = "descr"
				} else if e.K == "cut-descr" {
					ds[i].K = "cut-search"
				} else if e.K == "alien-descr" {
					ds[i].K = "alien-search"
				}
			}
			if rep%8 == 0 {
				for i := 0; i < 20; i++ {
					ds = append(ds, scriptEntry{i * tus / 40, "search"})
				}
			}
			if okMC {
				okMC = runDiscover(o, t, to, ds, slack, nil)
			}
		}
	}
	for _, to := range []time.Duration{5 * time.Millisecond, 40 * time.Millisecond} {
		runDescribeDead(o, t, to, slack)
	}
	if okMC {
		runDiscoverFail(o, t)
	}
	if !okMC {
		t.Log("multicast group not usable here: discovery half skipped")
	}
}

// stallMeter runs a goroutine that sleeps 1 ms at a time and remembers by how much it was woken late: on a loaded
// machine the call's own timer is late by about as much, which no property of the library can help.
func stallMeter() (stop func() int) {
	quit := make(chan struct{})
	res := make(chan int, 1)
	go func() {
		worst := time.Duration(0)
		for {
			t0 := time.Now()
			select {
			case <-quit:
				res <- int(worst / time.Microsecond)
				return
			case <-time.After(time.Millisecond):
			}
			if l := time.Since(t0) - time.Millisecond; l > worst {
				worst = l
			}
		}
	}()
	return func() int { close(quit); return <-res }
}

// runDescribeDead queries a port nobody listens on: the kernel answers with "port unreachable", the socket's receiver
// ends, and the call must still come back with no result at its timeout (no panic, no hang).
func runDescribeDead(o *codec.Out, t *testing.T, timeout, slack time.Duration) {
	pc, err := net.ListenUDP("udp4", &net.UDPAddr{IP: net.IPv4(127, 0, 0, 1)})
	if err != nil {
		t.Fatal(err)
	}
	addr := pc.LocalAddr().String()
	pc.Close()
	r := lookupRec{K: "lookup", Op: "describe", Allowed: [][]int{}, Extra: []int{}, Timeout: int(timeout / time.Microsecond), Script: []scriptEntry{}, Found: []int{},
		Slack: int(slack / time.Microsecond), Reqs: 1, HpaiOK: 1, Released: 1, Attempt: 1, Final: 1}
	meter := stallMeter()
	t0 := time.Now()
	var res *knxnet.DescriptionRes
	var cerr error
	if p, _ := codec.Guarded(func() { res, cerr = knx.DescribeTunnel(addr, timeout) }); p {
		r.Err = 2 // a panic escaped the call
	}
	r.Elapsed = int(time.Since(t0) / time.Microsecond)
	r.Stall = meter()
	if res != nil {
		r.Found = append(r.Found, 99)
	}
	_ = cerr // (an error return is as good as "no result")
	o.Rec(r)
}

// runDiscoverFail makes Discover fail after its socket is open (the discovery address carries port 0, which cannot be
// advertised) and checks that no receiver goroutine and no socket is left behind.
func runDiscoverFail(o *codec.Out, t *testing.T) {
	before := goroutinesWith("knxnet.serveUDPSocket")
	r := lookupRec{K: "lookup", Op: "discover", Allowed: [][]int{}, Extra: []int{}, Timeout: 20000, Script: []scriptEntry{}, Found: []int{}, Slack: 25000, Reqs: 1, HpaiOK: 1, Attempt: 1, Final: 1}
	failed := 0
	t0 := time.Now()
	for i := 0; i < 5; i++ {
		if res, err := knx.Discover(strings.Split(mcastAddr, ":")[0]+":0", 20*time.Millisecond); err != nil || res == nil {
			failed++
		}
	}
	r.Elapsed = int(time.Since(t0)/time.Microsecond) / 5
	if r.Elapsed < r.Timeout && failed == 5 {
		r.Elapsed = r.Timeout // (the lower bound of discover concerns successful discoveries)
	}
	time.Sleep(3 * time.Millisecond)
	r.Released = codec.B2i(goroutinesWith("knxnet.serveUDPSocket") <= before)
	o.Rec(r)
}

type tableRow struct {
	Op    string `json:"op"`
	Ticks int    `json:"ticks"`
	Arr   []struct {
		T    int    `json:"t"`
		Kind string `json:"kind"`
	} `json:"arr"`
	Allowed [][]int `json:"allowed"`
}

// TestC20Table replays the arrival scripts TLC enumerated from Lookup.tla (VERIF_TABLE, written by lib/lookupgen.py)
// against the real DescribeTunnel / Discover: one model tick is U = 20 ms, an arrival of tick t is sent U/4 into the
// tick. What the call returned must be one of the results the specification allows for that script (judged by
// Trace_Codec.tla; strict only when neither a scripted send nor a 1 ms sleeper was more than U/5 = 4 ms late).
func TestC20Table(t *testing.T) {
	o, err := codec.Open("VERIF_OUT")
	if err != nil {
		t.Skip(err)
	}
	defer o.Close()
	f, err := os.Open(os.Getenv("VERIF_TABLE"))
	if err != nil {
		t.Skip(err)
	}
	defer f.Close()
	const U = 20 * time.Millisecond
	slack := 25 * time.Millisecond
	okMC := true
	sc := bufio.NewScanner(f)
	sc.Buffer(make([]byte, 1<<16), 1<<22)
	for sc.Scan() {
		var row tableRow
		if json.Unmarshal(sc.Bytes(), &row) != nil {
			continue
		}
		want := "descr"
		if row.Op == "discover" {
			want = "search"
		}
		var script []scriptEntry
		for ai, a := range row.Arr {
			k := a.Kind
			switch k {
			case "match":
				k = want
			case "other":
				k = "alien-" + want
			case "malformed":
				if ai%2 == 1 {
					k = "cut-" + want
				}
			}
			script = append(script, scriptEntry{D: int((time.Duration(a.T)*U + U/4) / time.Microsecond), K: k})
		}
		if script == nil {
			script = []scriptEntry{}
		}
		fill := func(r *lookupRec) {
			r.Table, r.Allowed, r.Tol = 1, row.Allowed, int(U/5/time.Microsecond)
			if r.Allowed == nil {
				r.Allowed = [][]int{}
			}
			for i := range r.Allowed {
				if r.Allowed[i] == nil {
					r.Allowed[i] = []int{}
				}
			}
		}
		to := time.Duration(row.Ticks) * U
		if row.Op == "discover" {
			// discovery first opens a socket and joins the group (milliseconds, more on a loaded machine): its ticks are
			// twice as long, so that an arrival of tick 0 comes 10 ms after the call
			script = script[:0]
			for ai, a := range row.Arr {
				k := a.Kind
				switch k {
				case "match":
					k = want
				case "other":
					k = "alien-" + want
				case "malformed":
					if ai%2 == 1 {
						k = "cut-" + want
					}
				}
				script = append(script, scriptEntry{D: int((time.Duration(a.T)*2*U + U/2) / time.Microsecond), K: k})
			}
			to = time.Duration(row.Ticks) * 2 * U
		}
		if row.Op == "describe" {
			runDescribe(o, t, to, script, slack, fill)
		} else if okMC {
			okMC = runDiscover(o, t, to, script, slack, fill)
		}
	}
}
