package drive

import (
	"fmt"
	"os"
	"strconv"
	"sync"
	"testing"
	"time"

	"github.com/vapourismo/knx-go/knx"
	"github.com/vapourismo/knx-go/knx/cemi"
	"github.com/vapourismo/knx-go/knx/knxnet"

	"verif/harness/sim"
)

// RWorld runs the real knx.Router on the in-memory socket in (scaled) real time.
type RWorld struct {
	Rec   *sim.Recorder
	Sock  *sim.MemSock
	R     *knx.Router
	GR    *knx.GroupRouter
	Cfg   Cfg
	mu    sync.Mutex
	busy  map[int]bool
	wg    sync.WaitGroup
	rdOn  bool
	rdCtl chan struct{}
	rdWg  sync.WaitGroup

	recv1On  bool
	recv1Ctl chan struct{}
	start    time.Time
}

func (w *RWorld) inbound() (func() (int, bool, bool), func() <-chan struct{}) {
	// returns a non-blocking receive function: (pid, got, closed)
	if w.Cfg.Group {
		return func() (int, bool, bool) {
			select {
			case ev, ok := <-w.GR.Inbound():
				if !ok {
					return -1, false, true
				}
				pid := -1
				if len(ev.Data) == 3 {
					pid = int(ev.Data[1])<<8 | int(ev.Data[2])
				}
				return pid, true, false
			default:
				return -1, false, false
			}
		}, nil
	}
	return func() (int, bool, bool) {
		select {
		case m, ok := <-w.R.Inbound():
			if !ok {
				return -1, false, true
			}
			return sim.PidOf(m), true, false
		default:
			return -1, false, false
		}
	}, nil
}

func (w *RWorld) q() {
	d := time.Duration(w.Cfg.Q) * time.Microsecond
	if d <= 0 {
		d = 300 * time.Microsecond
	}
	time.Sleep(d)
}

func (w *RWorld) Exec(st Step) {
	skip := func(why string) { w.Rec.Simple("Skip", st.G, st.I, -1, st.Op+":"+why) }
	switch st.Op {
	case "send":
		w.mu.Lock()
		b := w.busy[st.G]
		if !b {
			w.busy[st.G] = true
		}
		w.mu.Unlock()
		if b {
			skip("busy")
			return
		}
		w.wg.Add(1)
		w.Rec.Emit(sim.Ev{K: "SendCall", G: st.G, Ch: -1, Seq: -1, St: -1, Pid: st.P, A: -1, B: -1})
		go func() {
			defer w.wg.Done()
			var err error
			if w.Cfg.Group {
				err = w.GR.Send(knx.GroupEvent{Command: knx.GroupWrite, Source: cemi.NewIndividualAddr3(1, 1, 7),
					Destination: cemi.NewGroupAddr3(1, 2, 3), Data: []byte{0, byte(st.P >> 8), byte(st.P)}})
			} else {
				err = w.R.Send(sim.Payload(st.P, true))
			}
			w.mu.Lock()
			w.busy[st.G] = false
			w.mu.Unlock()
			w.Rec.Emit(sim.Ev{K: "SendRet", G: st.G, Ch: -1, Seq: -1, St: -1, Pid: st.P, A: -1, B: -1, S: errClass(err)})
		}()
	case "ind":
		w.Sock.Arrive(sim.Build(&knxnet.RoutingInd{Payload: sim.Payload(st.P, true)}))
	case "burst":
		for i := 0; i < st.N; i++ {
			w.Sock.Arrive(sim.Build(&knxnet.RoutingInd{Payload: sim.Payload(st.P+i, true)}))
		}
	case "busy":
		w.Sock.Arrive(sim.RawBusy(0, st.N, st.I))
	case "lost":
		w.Sock.Arrive(sim.RawLost(0, st.N))
	case "adv":
		time.Sleep(time.Duration(st.D) * time.Microsecond)
	case "advto": // sleep until D microseconds after the beginning of the run (no drift from the steps in between)
		if d := time.Until(w.start.Add(time.Duration(st.D) * time.Microsecond)); d > 0 {
			time.Sleep(d)
		} else if d < -time.Duration(w.Cfg.Slack)*time.Microsecond*10 {
			w.Rec.Simple("Late", -1, int(-d/time.Microsecond), -1, "advto")
		}
	case "failsend":
		w.Sock.FailSend(st.Act == "on")
		w.Rec.Simple("FailSend", -1, -1, -1, st.Act)
	case "recv":
		try, _ := w.inbound()
		pid, got, closed := try()
		switch {
		case closed:
			w.Rec.Simple("RecvClosed", -1, -1, -1, "")
		case got:
			w.Rec.Emit(sim.Ev{K: "Recv", G: -1, Ch: -1, Seq: -1, St: -1, Pid: pid, A: -1, B: -1})
		default:
			w.Rec.Simple("RecvNone", -1, st.N, -1, "")
		}
	case "recv1": // one blocking receive (AppRecv / AppRecvRet of Router.tla)
		w.mu.Lock()
		pend := w.recv1On
		if !pend {
			w.recv1On = true
			if w.recv1Ctl == nil {
				w.recv1Ctl = make(chan struct{})
			}
		}
		ctl := w.recv1Ctl
		w.mu.Unlock()
		if pend {
			skip("recv-pending")
			return
		}
		w.rdWg.Add(1)
		go func() {
			defer w.rdWg.Done()
			defer func() { w.mu.Lock(); w.recv1On = false; w.mu.Unlock() }()
			if w.Cfg.Group {
				select {
				case <-ctl:
				case ev, ok := <-w.GR.Inbound():
					if !ok {
						w.Rec.Simple("RecvClosed", -1, -1, -1, "")
						return
					}
					pid := -1
					if len(ev.Data) == 3 {
						pid = int(ev.Data[1])<<8 | int(ev.Data[2])
					}
					w.Rec.Emit(sim.Ev{K: "Recv", G: -1, Ch: -1, Seq: -1, St: -1, Pid: pid, A: -1, B: -1})
				}
				return
			}
			select {
			case <-ctl:
			case m, ok := <-w.R.Inbound():
				if !ok {
					w.Rec.Simple("RecvClosed", -1, -1, -1, "")
					return
				}
				w.Rec.Emit(sim.Ev{K: "Recv", G: -1, Ch: -1, Seq: -1, St: -1, Pid: sim.PidOf(m), A: -1, B: -1})
			}
		}()
	case "drain":
		try, _ := w.inbound()
		idle := 0
		deadline := time.Now().Add(1500 * time.Millisecond)
		for idle < 6 && time.Now().Before(deadline) {
			if w.Sock.Pending() > 0 {
				idle = 0 // frames still wait for the serve loop (e.g. behind a back-off): not quiet yet
			}
			pid, got, closed := try()
			if closed {
				w.Rec.Simple("RecvClosed", -1, -1, -1, "")
				break
			}
			if got {
				idle = 0
				w.Rec.Emit(sim.Ev{K: "Recv", G: -1, Ch: -1, Seq: -1, St: -1, Pid: pid, A: -1, B: -1})
				continue
			}
			idle++
			time.Sleep(700 * time.Microsecond)
		}
		w.Rec.Simple("Drained", -1, w.Sock.Pending(), -1, "")
	case "reader":
		if st.Act == "on" && !w.rdOn {
			w.rdOn = true
			w.rdCtl = make(chan struct{})
			ctl := w.rdCtl
			w.rdWg.Add(1)
			go func() {
				defer w.rdWg.Done()
				for {
					if w.Cfg.Group {
						select {
						case <-ctl:
							return
						case ev, ok := <-w.GR.Inbound():
							if !ok {
								w.Rec.Simple("RecvClosed", -1, -1, -1, "")
								return
							}
							pid := -1
							if len(ev.Data) == 3 {
								pid = int(ev.Data[1])<<8 | int(ev.Data[2])
							}
							w.Rec.Emit(sim.Ev{K: "Recv", G: -1, Ch: -1, Seq: -1, St: -1, Pid: pid, A: -1, B: -1})
						}
						continue
					}
					select {
					case <-ctl:
						return
					case m, ok := <-w.R.Inbound():
						if !ok {
							w.Rec.Simple("RecvClosed", -1, -1, -1, "")
							return
						}
						w.Rec.Emit(sim.Ev{K: "Recv", G: -1, Ch: -1, Seq: -1, St: -1, Pid: sim.PidOf(m), A: -1, B: -1})
					}
				}
			}()
		} else if st.Act == "off" && w.rdOn {
			close(w.rdCtl)
			w.rdWg.Wait()
			w.rdOn = false
		} else {
			skip("reader-state")
		}
	case "close":
		w.R.Close()
	default:
		skip("unknown-op")
	}
}

func runRouter(rec *sim.Recorder, r Run) {
	rec.Begin()
	retain := r.Cfg.Retain
	if retain == 0 {
		retain = 32
	}
	rec.Emit(sim.Ev{K: "Cfg", G: -1, Ch: int(r.Cfg.Slack), Seq: -1, St: -1, Pid: r.ID, A: int(r.Cfg.Pause), B: retain, S: "router"})
	stopWd := Watchdog(rec, 4000) // records scheduling stalls above 1 ms (conformance runs are not compared then)
	defer stopWd()
	w := &RWorld{Rec: rec, Cfg: r.Cfg, busy: map[int]bool{}, start: time.Now()}
	poll := time.Duration(r.Cfg.Poll) * time.Microsecond
	if poll <= 0 {
		poll = 50 * time.Microsecond
	}
	w.Sock = sim.NewMemSock(rec, false, poll)
	w.Sock.Linger = time.Duration(r.Cfg.Linger) * time.Microsecond // a frame in flight at Close may still be handed over (set by the history family)
	rc := knx.RouterConfig{RetainCount: uint(r.Cfg.Retain), PostSendPauseDuration: time.Duration(r.Cfg.Pause) * time.Microsecond}
	if r.Cfg.Group {
		gr := knx.NewGroupRouterOnSocket(w.Sock, rc)
		w.GR = &gr
		w.R = gr.Router
	} else {
		w.R = knx.NewRouterOnSocket(w.Sock, rc)
	}
	for _, st := range r.Steps {
		w.Exec(st)
		w.q()
	}
	// let pending Sends finish (bounded), then end the run
	fin := make(chan struct{})
	go func() { w.wg.Wait(); close(fin) }()
	stuck := 0
	select {
	case <-fin:
	case <-time.After(time.Duration(r.Cfg.T)*time.Microsecond + 3*time.Second):
		stuck = 1
	}
	if w.rdOn {
		close(w.rdCtl)
		w.rdWg.Wait()
		w.rdOn = false
	}
	w.mu.Lock()
	if w.recv1Ctl != nil {
		close(w.recv1Ctl)
		w.recv1Ctl = nil
	}
	w.mu.Unlock()
	w.rdWg.Wait()
	closedBefore := w.Sock.IsClosed()
	names := ""
	cl := 0
	if closedBefore {
		cl = 1
	}
	rec.Simple("End", -1, stuck, cl, names)
	// Isolation between runs: close the router and wait until its serve goroutine has ended
	// (Inbound closed) and stragglers (pause goroutines, resend workers) had time to finish,
	// so that nothing of this run is recorded into the next one.
	w.R.Close()
	gone := make(chan struct{})
	go func() {
		defer close(gone)
		if w.Cfg.Group {
			for range w.GR.Inbound() {
			}
			return
		}
		for range w.R.Inbound() {
		}
	}()
	select {
	case <-gone:
	case <-time.After(3 * time.Second):
		rec.Simple("Hang", -1, -1, -1, "serve goroutine did not end after Close")
	}
	time.Sleep(2*time.Duration(r.Cfg.Pause)*time.Microsecond + 2*time.Millisecond)
}

// TestRouterSchedules interprets VERIF_SCHED against the real Router (always real time:
// sendMu is held across timers, which a synctest bubble cannot advance through).
func TestRouterSchedules(t *testing.T) {
	runs := readRuns(t)
	out, err := os.OpenFile(os.Getenv("VERIF_OUT"), os.O_CREATE|os.O_WRONLY|os.O_APPEND, 0o644)
	if err != nil {
		t.Fatal(err)
	}
	defer out.Close()
	from, _ := strconv.Atoi(os.Getenv("VERIF_FROM"))
	rec := sim.NewRecorder(out, false)
	HookInto(rec)
	for i, r := range runs {
		if i < from {
			continue
		}
		runRouter(rec, r)
		rec.Begin()
		rec.Simple("RunEnd", -1, r.ID, -1, "")
		rec.Flush()
		fmt.Fprintf(os.Stderr, "run-done %d\n", i)
	}
}
