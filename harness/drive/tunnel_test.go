package drive

import (
	"bufio"
	"encoding/json"
	"fmt"
	"os"
	"strconv"
	"testing"
	"testing/synctest"
	"time"

	"verif/harness/sim"
)

func readRuns(t *testing.T) []Run {
	path := os.Getenv("VERIF_SCHED")
	if path == "" {
		t.Skip("VERIF_SCHED not set")
	}
	f, err := os.Open(path)
	if err != nil {
		t.Fatal(err)
	}
	defer f.Close()
	var runs []Run
	sc := bufio.NewScanner(f)
	sc.Buffer(make([]byte, 1<<20), 1<<26)
	for sc.Scan() {
		if len(sc.Bytes()) == 0 {
			continue
		}
		var r Run
		if err := json.Unmarshal(sc.Bytes(), &r); err != nil {
			t.Fatalf("bad schedule line: %v", err)
		}
		runs = append(runs, r)
	}
	return runs
}

func runOne(rec *sim.Recorder, r Run, bubble bool) {
	rec.Begin()
	rec.Emit(CfgEvent(r))
	quiesce := synctest.Wait
	if !bubble {
		q := time.Duration(r.Cfg.Q) * time.Microsecond
		if q <= 0 {
			q = 300 * time.Microsecond
		}
		quiesce = func() { time.Sleep(q) }
	}
	if r.Cfg.Poll == 0 {
		r.Cfg.Poll = 1000
	}
	if !bubble {
		stop := Watchdog(rec, r.Cfg.Slack)
		defer stop()
	}
	w := NewWorld(rec, r.Cfg, quiesce)
	w.Bubble = bubble
	for _, st := range r.Steps {
		w.Exec(st)
		quiesce()
		if bubble {
			rec.Simple("Idle", -1, -1, -1, "")
		}
	}
	w.Teardown()
}

// TestTunnelSchedules interprets every schedule of VERIF_SCHED against the real Tunnel
// and writes the concatenated trace to VERIF_OUT. VERIF_FROM skips the first runs (used
// by the orchestrator to continue after a run that killed the process).
func TestTunnelSchedules(t *testing.T) {
	runs := readRuns(t)
	out, err := os.OpenFile(os.Getenv("VERIF_OUT"), os.O_CREATE|os.O_WRONLY|os.O_APPEND, 0o644)
	if err != nil {
		t.Fatal(err)
	}
	defer out.Close()
	from, _ := strconv.Atoi(os.Getenv("VERIF_FROM"))
	bubble := os.Getenv("VERIF_MODE") != "real"
	rec := sim.NewRecorder(out, false)
	HookInto(rec)
	for i, r := range runs {
		if i < from {
			continue
		}
		if r.Cfg.Mode == "" {
			if bubble {
				r.Cfg.Mode = "bubble"
			} else {
				r.Cfg.Mode = "real"
			}
		}
		if bubble {
			// (in its own goroutine: when the race detector reports inside the bubble, synctest.Test ends the calling
			// goroutine through t.FailNow - that must end neither the driver nor the remaining runs)
			res := make(chan any, 1)
			go func() {
				var m any
				defer func() { res <- m }()
				defer func() { m = recover() }()
				synctest.Test(t, func(t *testing.T) { runOne(rec, r, true) })
			}()
			msg := <-res
			if msg != nil {
				// goroutines of this run are blocked forever (or the run panicked)
				rec.Simple("BubbleAbort", -1, -1, -1, fmt.Sprint(msg))
			}
		} else {
			runOne(rec, r, false)
		}
		rec.Begin()
		rec.Simple("RunEnd", -1, r.ID, -1, "")
		rec.Flush()
		fmt.Fprintf(os.Stderr, "run-done %d\n", i)
	}
}
