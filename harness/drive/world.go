// Package drive contains the schedule interpreters that run the real knx-go clients
// against the simulated environment and record ndjson traces.
package drive

import (
	"fmt"
	"regexp"
	"runtime"
	"sort"
	"strings"
	"sync"
	"time"

	"github.com/vapourismo/knx-go/knx"
	"github.com/vapourismo/knx-go/knx/cemi"
	"github.com/vapourismo/knx-go/knx/knxnet"

	"verif/harness/sim"
)

// HookInto routes the library's build-tag guarded trace points into the recorder.
func HookInto(rec *sim.Recorder) {
	knx.VerifTrace = func(name string, args ...int64) {
		a := -1
		if len(args) > 0 {
			a = int(args[0] / 1000) // durations arrive in ns; the trace speaks µs
		}
		rec.Simple("Hook", -1, a, -1, name)
	}
}

// Cfg is the per-run configuration.
type Cfg struct {
	R         int64  `json:"R"` // resend interval, µs
	T         int64  `json:"T"` // response timeout, µs
	H         int64  `json:"H"` // heartbeat interval, µs
	TCP       bool   `json:"tcp"`
	Group     bool   `json:"group"` // run through GroupTunnel
	Q         int64  `json:"q"`     // real-time quiesce pause, µs (0 in a bubble)
	Mode      string `json:"mode"`
	Pause     int64  `json:"pause"`     // router: post-send pause, µs
	Retain    int    `json:"retain"`    // router: retain count (0 = default)
	DiscDelay int64  `json:"discdelay"` // socket write time of a DiscReq, µs
	Slack     int64  `json:"slack"`     // real-time tolerance for timing clauses, µs
	Poll      int64  `json:"poll"`      // socket hand-off retry period, µs
	Linger    int64  `json:"linger"`    // router: how long a hand-off in progress stays on offer after the socket was closed, µs
}

// Step is one environment choice.
type Step struct {
	Op    string `json:"op"`
	G     int    `json:"g"`
	P     int    `json:"p"`
	I     int    `json:"i"`
	D     int64  `json:"d"`
	Dir   string `json:"dir"`
	Act   string `json:"act"`
	Svc   string `json:"svc"`
	Ch    string `json:"ch"`    // own | other
	Rel   int    `json:"rel"`   // sequence number relative to the live counter
	Q     int    `json:"q"`     // net: 1 + sequence number (modulo Mod) the addressed datagram must carry; 0 = any
	Qch   int    `json:"qch"`   // net: 1 + channel the addressed datagram must carry; 0 = any
	Qst   int    `json:"qst"`   // net: 1 + status the addressed datagram must carry; 0 = any
	Mod   int    `json:"mod"`   // modulus of Q (the specification counts modulo 4)
	Exact bool   `json:"exact"` // net: deliver exactly the addressed datagram even in TCP mode (the random walks keep stream order)
	Base  string `json:"base"`  // "ctr": relative to the client's send counter instead of the last transmitted number
	St    int    `json:"st"`
	S     string `json:"s"`
	N     int    `json:"n"`
}

// Run is one schedule.
type Run struct {
	ID    int    `json:"run"`
	Cfg   Cfg    `json:"cfg"`
	Steps []Step `json:"steps"`
	Tag   string `json:"tag"`
}

// World is the composed system for tunnel runs.
type World struct {
	Rec  *sim.Recorder
	Sock *sim.MemSock
	Net  *sim.Net
	Gw   *sim.Gateway
	Cfg  Cfg

	Quiesce func()
	Bubble  bool

	attMu     sync.Mutex
	att       int // number of successful connects seen: tags ConnReq frames with their attempt
	mu        sync.Mutex
	tun       *knx.Tunnel
	gt        *knx.GroupTunnel
	connErr   error
	connDone  chan struct{}
	busy      map[int]bool // sender goroutine g is inside Send
	closing   map[int]bool
	wg        sync.WaitGroup
	readerOn  bool
	readerCtl chan struct{}
	readerWg  sync.WaitGroup
	recv1On   bool
	recv1Ctl  chan struct{}

	curSnd     int  // sequence number of the last TunnelReq the client transmitted
	offS, offR int  // sequence numbers already used up by a wrap prefix (sender / receiver direction): net addressing subtracts them
	sndCtr     int  // the client's send counter as far as the driver can tell (in-flight number, +1 once acknowledged)
	connecting bool // a ConnReq went out and no positive ConnRes has been taken in since
	rcvExpect  int  // sequence number the client should expect next (by the rule)
	chanNow    int  // channel of the current epoch as assigned by ConnRes delivered
}

func NewWorld(rec *sim.Recorder, cfg Cfg, quiesce func()) *World {
	w := &World{Rec: rec, Cfg: cfg, Quiesce: quiesce, busy: map[int]bool{}, closing: map[int]bool{}}
	w.Sock = sim.NewMemSock(rec, cfg.TCP, time.Duration(cfg.Poll)*time.Microsecond)
	w.Sock.DiscDelay = time.Duration(cfg.DiscDelay) * time.Microsecond
	w.Net = &sim.Net{TCP: cfg.TCP}
	w.Gw = sim.NewGateway(rec, cfg.TCP)
	w.Sock.OnIn = func(f sim.Frame) {
		if f.Svc == "ConnRes" && f.St == 0 {
			w.attMu.Lock()
			w.att++
			w.attMu.Unlock()
			w.mu.Lock()
			if w.connecting {
				w.connecting = false
				w.sndCtr = 0
			}
			w.mu.Unlock()
		}
	}
	w.Sock.OnTx = func(f sim.Frame) {
		if f.Svc == "TunnelReq" {
			w.mu.Lock()
			w.curSnd = f.Seq
			w.sndCtr = f.Seq
			w.mu.Unlock()
		}
		if f.Svc == "ConnReq" {
			w.mu.Lock()
			w.connecting = true
			w.mu.Unlock()
			w.attMu.Lock()
			f.Att = w.att
			w.attMu.Unlock()
		}
		w.Net.Put("c2g", f)
	}
	return w
}

func (w *World) tcfg() knx.TunnelConfig {
	return knx.TunnelConfig{
		ResendInterval:    time.Duration(w.Cfg.R) * time.Microsecond,
		ResponseTimeout:   time.Duration(w.Cfg.T) * time.Microsecond,
		HeartbeatInterval: time.Duration(w.Cfg.H) * time.Microsecond,
		UseTCP:            w.Cfg.TCP,
	}
}

func (w *World) anyBusy() bool {
	w.mu.Lock()
	defer w.mu.Unlock()
	for _, b := range w.busy {
		if b {
			return true
		}
	}
	return false
}

func (w *World) tunnel() *knx.Tunnel {
	w.mu.Lock()
	defer w.mu.Unlock()
	return w.tun
}

func errClass(err error) string {
	if err == nil {
		return "ok"
	}
	s := err.Error()
	switch {
	case strings.Contains(s, "timeout"):
		return "timeout"
	case strings.Contains(s, "rejected"):
		return "rejected"
	case strings.Contains(s, "terminated"):
		return "terminated"
	case strings.Contains(s, "sim:"):
		return "sockerr"
	}
	return "error"
}

// toG2C routes gateway output into the network.
func (w *World) toG2C(fs []sim.Frame) {
	for _, f := range fs {
		w.Net.Put("g2c", f)
	}
}

// arrive hands a frame to the client's socket and keeps the driver's rule-based
// bookkeeping (used only to build relative injections).
func (w *World) arrive(f sim.Frame) {
	if w.Bubble && f.Svc == "ConnRes" && f.St == 0 {
		// Bubble limitation: requestConn would block on the sequence mutex (not a durable
		// block) while a Send holds it across its timers, and virtual time could never
		// advance. The environment therefore delays this response until no Send is pending.
		// (only while the client is actually connecting: a stray ConnRes is ignored by process())
		w.mu.Lock()
		conn := w.connecting
		w.mu.Unlock()
		if conn && w.anyBusy() {
			w.Rec.Simple("Delayed", -1, -1, -1, "connres-while-send-pending")
		}
		for i := 0; conn && i < 64 && w.anyBusy(); i++ {
			time.Sleep(time.Duration(w.Cfg.R) * time.Microsecond)
			w.Quiesce()
		}
	}
	w.mu.Lock()
	if f.Svc == "ConnRes" && f.St == 0 {
		w.chanNow = f.Ch
		w.rcvExpect = 0
	}
	if f.Svc == "TunnelReq" && f.Ch == w.chanNow && f.Seq == w.rcvExpect {
		w.rcvExpect = (w.rcvExpect + 1) % 256
	}
	w.mu.Unlock()
	w.Sock.Arrive(f)
}

// Exec runs one step. Steps that are not applicable are logged as Skip.
func (w *World) Exec(st Step) {
	skip := func(why string) { w.Rec.Simple("Skip", st.G, st.I, -1, st.Op+":"+why) }
	switch st.Op {
	case "new":
		if w.connDone != nil {
			skip("already")
			return
		}
		w.connDone = make(chan struct{})
		w.Rec.Simple("NewCall", -1, -1, -1, "")
		go func() {
			var t *knx.Tunnel
			var err error
			if w.Cfg.Group {
				var gt knx.GroupTunnel
				gt, err = knx.NewGroupTunnelOnSocket(w.Sock, w.tcfg())
				if err == nil {
					t = gt.Tunnel
					w.mu.Lock()
					w.gt = &gt
					w.mu.Unlock()
				}
			} else {
				t, err = knx.NewTunnelOnSocket(w.Sock, knxnet.TunnelLayerData, w.tcfg())
			}
			w.mu.Lock()
			w.tun, w.connErr = t, err
			w.mu.Unlock()
			w.Rec.Simple("NewRet", -1, -1, -1, errClass(err))
			close(w.connDone)
		}()
	case "connect": // clean handshake
		w.Exec(Step{Op: "new"})
		w.Quiesce()
		w.Exec(Step{Op: "net", Dir: "c2g", I: 0, Act: "deliver"})
		w.Exec(Step{Op: "net", Dir: "g2c", I: 0, Act: "deliver"})
		w.Quiesce()
	case "send":
		t := w.tunnel()
		if w.Bubble && w.anyBusy() {
			skip("bubble-one-sender")
			return
		}
		w.mu.Lock()
		b := w.busy[st.G]
		if t != nil && !b {
			w.busy[st.G] = true
		}
		w.mu.Unlock()
		if t == nil || b {
			skip("busy-or-noconn")
			return
		}
		w.wg.Add(1)
		e := sim.Ev{K: "SendCall", G: st.G, Ch: -1, Seq: -1, St: -1, Pid: st.P, A: -1, B: -1}
		w.Rec.Emit(e)
		go func() {
			defer w.wg.Done()
			var err error
			if w.Cfg.Group {
				w.mu.Lock()
				gt := w.gt
				w.mu.Unlock()
				err = gt.Send(knx.GroupEvent{Command: knx.GroupWrite, Source: cemi.NewIndividualAddr3(1, 1, 7),
					Destination: cemi.NewGroupAddr3(1, 2, 3), Data: []byte{0, byte(st.P >> 8), byte(st.P)}})
			} else {
				err = t.Send(sim.Payload(st.P, false))
			}
			r := sim.Ev{K: "SendRet", G: st.G, Ch: -1, Seq: -1, St: -1, Pid: st.P, A: -1, B: -1, S: errClass(err)}
			w.mu.Lock()
			w.busy[st.G] = false
			if r.S == "ok" || r.S == "rejected" {
				w.sndCtr = (w.curSnd + 1) % 256
			}
			w.mu.Unlock()
			w.Rec.Emit(r)
		}()
	case "net":
		n := w.Net.Len(st.Dir)
		if n == 0 {
			skip("empty")
			return
		}
		i := st.I % n
		if i < 0 {
			i += n
		}
		if st.Svc != "" { // address the datagram by service type: the I-th oldest of that type
			i = -1
			k := 0
			for j := 0; j < n; j++ {
				if f, _ := w.Net.Peek(st.Dir, j); f.Svc == st.Svc {
					if st.Q > 0 && st.Mod > 0 && f.Seq >= 0 {
						// the direction of the exchange decides which prefix offset applies
						off := w.offS
						if (st.Dir == "g2c") == (f.Svc == "TunnelReq") {
							off = w.offR
						}
						if ((f.Seq-off)%256+256)%256%st.Mod != st.Q-1 {
							continue
						}
					}
					if st.Qst > 0 && f.St != st.Qst-1 {
						continue
					}
					if st.Qch > 0 && f.Ch != st.Qch-1 {
						continue
					}
					if k == st.I {
						i = j
						break
					}
					k++
					if i < 0 {
						i = j
					}
				}
			}
			if i < 0 {
				skip("no-such-frame")
				return
			}
		}
		if w.Cfg.TCP {
			if st.Act != "deliver" {
				skip("tcp-reliable")
				return
			}
			if !st.Exact { // (a behaviour generated from the specification names the datagram itself)
				i = 0
			}
		}
		switch st.Act {
		case "lose":
			f, _ := w.Net.Take(st.Dir, i)
			e := f
			w.Rec.FrameEv("NetLose", e, -1)
		case "dup":
			f, _ := w.Net.Peek(st.Dir, i)
			w.Net.Put(st.Dir, f)
			w.Rec.FrameEv("NetDup", f, -1)
		default:
			f, _ := w.Net.Take(st.Dir, i)
			if st.Dir == "c2g" {
				w.toG2C(w.Gw.Recv(f))
			} else {
				w.arrive(f)
			}
		}
	case "prefix":
		// N clean Send exchanges and I clean telegrams from the gateway, all at this instant: positions the real
		// 8-bit counters just below their wrap before a behaviour generated with the model's small modulus goes on.
		if w.tunnel() == nil || w.anyBusy() || !w.Gw.Connected || w.Gw.Pending {
			// (e.g. the gateway already forwarded a telegram before the client took its ConnRes in): the
			// behaviour simply goes on without a prefix
			w.Rec.Simple("PrefixSkipped", -1, st.N, st.I, "")
			return
		}
		w.Rec.Simple("PrefixBegin", -1, st.N, st.I, "")
		takeExact := func(dir, svc string, seq int) (sim.Frame, bool) {
			for j := w.Net.Len(dir) - 1; j >= 0; j-- {
				if f, _ := w.Net.Peek(dir, j); f.Svc == svc && f.Seq == seq && f.Ch == w.chanNow {
					return w.Net.Take(dir, j)
				}
			}
			return sim.Frame{}, false
		}
		okAll := true
		for k := 0; k < st.N && okAll; k++ {
			w.mu.Lock()
			seq := w.sndCtr
			w.mu.Unlock()
			w.Exec(Step{Op: "send", G: 1, P: 60000 + k})
			w.Quiesce()
			f, ok := takeExact("c2g", "TunnelReq", seq)
			if !ok {
				okAll = false
				break
			}
			w.toG2C(w.Gw.Recv(f))
			if a, ok := takeExact("g2c", "TunnelRes", seq); ok {
				w.arrive(a)
			} else {
				okAll = false
			}
			w.Quiesce()
		}
		for k := 0; k < st.I && okAll; k++ {
			out := w.Gw.Telegram(61000 + k)
			if out == nil {
				okAll = false
				break
			}
			seq := out[0].Seq
			w.arrive(out[0])
			w.Quiesce()
			w.Exec(Step{Op: "recv"})
			if a, ok := takeExact("c2g", "TunnelRes", seq); ok {
				w.toG2C(w.Gw.Recv(a))
			} else {
				okAll = false
			}
			w.Quiesce()
		}
		if !okAll {
			skip("prefix-failed")
		}
		w.mu.Lock()
		w.offS += st.N
		w.offR += st.I
		a, b := w.offS, w.offR
		w.mu.Unlock()
		w.Rec.Simple("PrefixEnd", -1, a, b, "")
	case "gwtele":
		out := w.Gw.Telegram(st.P)
		if out == nil {
			skip("gw-not-ready")
			return
		}
		w.toG2C(out)
	case "gwresend":
		out := w.Gw.Resend()
		if out == nil {
			skip("gw-nothing-pending")
			return
		}
		w.toG2C(out)
	case "gwgiveup":
		out := w.Gw.GiveUp()
		if out == nil {
			skip("gw-not-connected")
			return
		}
		w.toG2C(out)
	case "gwpolicy":
		switch st.S {
		case "conn":
			w.Gw.ConnPolicy = st.Act
			w.Gw.RefuseStatus = st.St
		case "hb":
			w.Gw.HbPolicy = st.Act
			if st.St != 0 {
				w.Gw.HbStatus = st.St
			}
		case "nextchan":
			w.Gw.NextChan = st.N
		case "ack":
			w.Gw.AckStatus = st.St
		}
		w.Rec.Simple("GwPolicy", -1, st.N, st.St, st.S+"="+st.Act)
	case "inject":
		w.mu.Lock()
		ch := w.chanNow
		if st.Ch == "other" {
			ch = (ch + 7) % 256
		}
		if st.Ch == "off" && st.N%256 != 0 { // any foreign channel: the current one plus st.N
			ch = (ch + st.N) % 256
		}
		var p knxnet.ServicePackable
		switch st.Svc {
		case "TunnelRes":
			base := w.curSnd
			if st.Base == "ctr" {
				base = w.sndCtr
			}
			p = &knxnet.TunnelRes{Channel: uint8(ch), SeqNumber: uint8(base + st.Rel), Status: knxnet.ErrCode(st.St)}
		case "TunnelReq":
			p = &knxnet.TunnelReq{Channel: uint8(ch), SeqNumber: uint8(w.rcvExpect + st.Rel), Payload: sim.Payload(st.P, true)}
		case "ConnStateRes":
			p = &knxnet.ConnStateRes{Channel: uint8(ch), Status: knxnet.ErrCode(st.St)}
		case "DiscReq":
			p = &knxnet.DiscReq{Channel: uint8(ch), Status: uint8(st.St)}
		case "DiscRes":
			p = &knxnet.DiscRes{Channel: uint8(ch), Status: uint8(st.St)}
		case "ConnRes":
			p = &knxnet.ConnRes{Channel: uint8(st.N), Status: knxnet.ErrCode(st.St)}
		}
		w.mu.Unlock()
		if p == nil {
			skip("bad-svc")
			return
		}
		f := sim.Build(p)
		w.Rec.FrameEv("Inject", f, -1)
		w.arrive(f)
	case "burst": // N in-sequence tunnelling requests arrive back to back (no quiescence in between)
		for i := 0; i < st.N; i++ {
			w.mu.Lock()
			p := &knxnet.TunnelReq{Channel: uint8(w.chanNow), SeqNumber: uint8(w.rcvExpect), Payload: sim.Payload(st.P+i, true)}
			w.mu.Unlock()
			f := sim.Build(p)
			w.Rec.FrameEv("Inject", f, -1)
			w.arrive(f)
		}
	case "adv":
		time.Sleep(time.Duration(st.D) * time.Microsecond)
		w.Rec.Simple("Adv", -1, int(st.D), -1, "")
	case "recv":
		t := w.tunnel()
		if t == nil {
			skip("noconn")
			return
		}
		w.Quiesce()
		if w.Cfg.Group {
			select {
			case ev, ok := <-w.gt.Inbound():
				if !ok {
					w.Rec.Simple("RecvClosed", -1, -1, -1, "")
				} else {
					pid := -1
					if len(ev.Data) == 3 {
						pid = int(ev.Data[1])<<8 | int(ev.Data[2])
					}
					e := sim.Ev{K: "Recv", G: -1, Ch: -1, Seq: -1, St: -1, Pid: pid, A: -1, B: -1}
					w.Rec.Emit(e)
				}
			default:
				w.Rec.Simple("RecvNone", -1, -1, -1, "")
			}
			return
		}
		select {
		case m, ok := <-t.Inbound():
			if !ok {
				w.Rec.Simple("RecvClosed", -1, -1, -1, "")
			} else {
				e := sim.Ev{K: "Recv", G: -1, Ch: -1, Seq: -1, St: -1, Pid: sim.PidOf(m), A: -1, B: -1}
				w.Rec.Emit(e)
			}
		default:
			w.Rec.Simple("RecvNone", -1, -1, -1, "")
		}
	case "recv1": // one blocking receive (AppRecv / AppRecvRet of the specification)
		t := w.tunnel()
		if t == nil {
			skip("noconn")
			return
		}
		w.mu.Lock()
		pend := w.recv1On
		if !pend {
			w.recv1On = true
			if w.recv1Ctl == nil {
				w.recv1Ctl = make(chan struct{})
			}
		}
		ctl := w.recv1Ctl
		w.mu.Unlock()
		if pend {
			skip("recv-pending")
			return
		}
		w.readerWg.Add(1)
		go func() {
			defer w.readerWg.Done()
			defer func() { w.mu.Lock(); w.recv1On = false; w.mu.Unlock() }()
			if w.Cfg.Group {
				select {
				case <-ctl:
				case ev, ok := <-w.gt.Inbound():
					if !ok {
						w.Rec.Simple("RecvClosed", -1, -1, -1, "")
						return
					}
					pid := -1
					if len(ev.Data) == 3 {
						pid = int(ev.Data[1])<<8 | int(ev.Data[2])
					}
					w.Rec.Emit(sim.Ev{K: "Recv", G: -1, Ch: -1, Seq: -1, St: -1, Pid: pid, A: -1, B: -1})
				}
				return
			}
			select {
			case <-ctl:
			case m, ok := <-t.Inbound():
				if !ok {
					w.Rec.Simple("RecvClosed", -1, -1, -1, "")
					return
				}
				w.Rec.Emit(sim.Ev{K: "Recv", G: -1, Ch: -1, Seq: -1, St: -1, Pid: sim.PidOf(m), A: -1, B: -1})
			}
		}()
	case "reader":
		t := w.tunnel()
		if t == nil {
			skip("noconn")
			return
		}
		if st.Act == "on" && !w.readerOn {
			w.readerOn = true
			w.readerCtl = make(chan struct{})
			ctl := w.readerCtl
			w.readerWg.Add(1)
			w.Rec.Simple("ReaderOn", -1, -1, -1, "")
			go func() {
				defer w.readerWg.Done()
				if w.Cfg.Group {
					for {
						select {
						case <-ctl:
							return
						case ev, ok := <-w.gt.Inbound():
							if !ok {
								w.Rec.Simple("RecvClosed", -1, -1, -1, "")
								return
							}
							pid := -1
							if len(ev.Data) == 3 {
								pid = int(ev.Data[1])<<8 | int(ev.Data[2])
							}
							w.Rec.Emit(sim.Ev{K: "Recv", G: -1, Ch: -1, Seq: -1, St: -1, Pid: pid, A: -1, B: -1})
						}
					}
				}
				for {
					select {
					case <-ctl:
						return
					case m, ok := <-t.Inbound():
						if !ok {
							w.Rec.Simple("RecvClosed", -1, -1, -1, "")
							return
						}
						w.Rec.Emit(sim.Ev{K: "Recv", G: -1, Ch: -1, Seq: -1, St: -1, Pid: sim.PidOf(m), A: -1, B: -1})
					}
				}
			}()
		} else if st.Act == "off" && w.readerOn {
			close(w.readerCtl)
			w.readerWg.Wait()
			w.readerOn = false
			w.Rec.Simple("ReaderOff", -1, -1, -1, "")
		} else {
			skip("reader-state")
		}
	case "close":
		t := w.tunnel()
		w.mu.Lock()
		c := w.closing[st.G]
		if t != nil && !c {
			w.closing[st.G] = true
		}
		w.mu.Unlock()
		if t == nil || c {
			skip("closing-or-noconn")
			return
		}
		w.wg.Add(1)
		w.Rec.Simple("CloseCall", st.G, -1, -1, "")
		go func() {
			defer w.wg.Done()
			t.Close()
			w.Rec.Simple("CloseRet", st.G, -1, -1, "")
		}()
	case "sockfail":
		if st.Act == "send" {
			w.Sock.FailSend(true)
			w.Rec.Simple("SockFail", -1, -1, -1, "send")
		} else if st.Act == "once" { // a transient local error: the next write of a frame of type Svc fails, later ones succeed
			w.Sock.FailNext(st.Svc)
			w.Rec.Simple("SockFail", -1, -1, -1, "once")
		} else {
			w.Rec.Simple("SockFail", -1, -1, -1, "inbound")
			w.Sock.Kill()
		}
	case "flush": // a reliable network for a moment: deliver everything, N rounds
		rounds := st.N
		if rounds <= 0 {
			rounds = 3
		}
		for r := 0; r < rounds; r++ {
			for w.Net.Len("c2g") > 0 {
				w.Exec(Step{Op: "net", Dir: "c2g", I: 0, Act: "deliver"})
			}
			for w.Net.Len("g2c") > 0 {
				w.Exec(Step{Op: "net", Dir: "g2c", I: 0, Act: "deliver"})
			}
			w.Quiesce()
		}
	case "drain": // the application reads Inbound until nothing more is on offer
		t := w.tunnel()
		if t == nil {
			skip("noconn")
			return
		}
		for i := 0; i < 100000; i++ {
			before := w.Rec.CountOf("Recv")
			w.Exec(Step{Op: "recv"})
			if w.Rec.CountOf("Recv") == before {
				break
			}
		}
		w.Rec.Simple("Drained", -1, -1, -1, "")
	case "census":
		w.Quiesce()
		n, names := Census()
		w.Rec.Simple("Census", -1, n, -1, names)
	default:
		skip("unknown-op")
	}
}

var reKnxFn = regexp.MustCompile(`github\.com/vapourismo/knx-go/knx(?:/knxnet)?\.([^\s(]+(?:\([^)]*\))?[^\s(]*)\(`)

// Census counts the goroutines that currently execute library code and returns their
// top-most library function names.
func Census() (int, string) {
	buf := make([]byte, 1<<20)
	buf = buf[:runtime.Stack(buf, true)]
	var names []string
	for _, g := range strings.Split(string(buf), "\n\n") {
		if strings.Contains(g, "drive.Census") {
			continue
		}
		m := reKnxFn.FindStringSubmatch(g)
		if m != nil {
			names = append(names, m[1])
		}
	}
	sort.Strings(names)
	return len(names), strings.Join(names, ",")
}

// Teardown ends the run: closes what is still open so that every goroutine can exit, and
// reports what stayed behind.
func (w *World) Teardown() {
	w.Rec.Simple("Teardown", -1, -1, -1, "")
	if w.connDone != nil {
		// make sure a constructor that is still waiting can finish
		w.Quiesce()
		select {
		case <-w.connDone:
		default:
			w.Sock.Kill()
			w.Quiesce()
			waitOr(w.connDone, w.Cfg)
		}
	}
	t := w.tunnel()
	if w.readerOn {
		close(w.readerCtl)
		w.readerWg.Wait()
		w.readerOn = false
	}
	w.mu.Lock()
	if w.recv1Ctl != nil {
		close(w.recv1Ctl)
		w.recv1Ctl = nil
	}
	w.mu.Unlock()
	w.readerWg.Wait()
	if t != nil {
		done := make(chan struct{})
		w.Rec.Simple("CloseCall", 0, -1, -1, "teardown")
		go func() { t.Close(); w.Rec.Simple("CloseRet", 0, -1, -1, "teardown"); close(done) }()
		// drain Inbound so parked deliveries and the group forwarder can finish
		go func() {
			if w.Cfg.Group {
				for range w.gt.Inbound() {
				}
				return
			}
			for range t.Inbound() {
			}
		}()
		waitOr(done, w.Cfg)
	} else {
		w.Sock.Kill()
	}
	fin := make(chan struct{})
	go func() { w.wg.Wait(); close(fin) }()
	waitOr(fin, w.Cfg)
	w.Quiesce()
	n, names := Census()
	w.Rec.Simple("End", -1, n, -1, names)
}

func waitOr(c chan struct{}, cfg Cfg) {
	d := time.Duration(3*cfg.T+2*cfg.R) * time.Microsecond
	select {
	case <-c:
	case <-time.After(d + time.Second):
	}
}

// CfgEvent describes the run for the trace consumers.
func CfgEvent(r Run) sim.Ev {
	mode := "udp"
	if r.Cfg.TCP {
		mode = "tcp"
	}
	return sim.Ev{K: "Cfg", G: int(r.Cfg.H), Ch: int(r.Cfg.Slack), Seq: -1, St: -1, Pid: r.ID, A: int(r.Cfg.R), B: int(r.Cfg.T),
		S: fmt.Sprintf("%s,%s", mode, r.Cfg.Mode)}
}

// Watchdog measures, in real-time runs, how late this process is woken from a 1 ms sleep and records
// every lateness above a quarter of the run's slack as a Stall event (a = lateness in microseconds).
// The orchestrator widens the upper time bounds of a run by what was measured: a starved machine
// delays the client's timers just as it delays this goroutine.
func Watchdog(rec *sim.Recorder, slack int64) (stop func()) {
	quit := make(chan struct{})
	done := make(chan struct{})
	thr := time.Duration(slack/4) * time.Microsecond
	if thr < 500*time.Microsecond {
		thr = 500 * time.Microsecond
	}
	go func() {
		defer close(done)
		for {
			t0 := time.Now()
			select {
			case <-quit:
				return
			case <-time.After(time.Millisecond):
			}
			if late := time.Since(t0) - time.Millisecond; late > thr {
				rec.Simple("Stall", -1, int(late/time.Microsecond), -1, "")
			}
		}
	}()
	return func() { close(quit); <-done }
}
