package sim

import (
	"sync"

	"github.com/vapourismo/knx-go/knx/knxnet"
)

// Net is the lossy, duplicating, reordering datagram network: one bag per direction.
type Net struct {
	mu  sync.Mutex
	C2G []Frame
	G2C []Frame
	TCP bool // reliable, ordered: only index 0 may be delivered, no loss/dup
}

func (n *Net) Put(dir string, f Frame) {
	n.mu.Lock()
	if dir == "c2g" {
		n.C2G = append(n.C2G, f)
	} else {
		n.G2C = append(n.G2C, f)
	}
	n.mu.Unlock()
}

func (n *Net) Len(dir string) int {
	n.mu.Lock()
	defer n.mu.Unlock()
	if dir == "c2g" {
		return len(n.C2G)
	}
	return len(n.G2C)
}

// Take removes and returns element i of the bag.
func (n *Net) Take(dir string, i int) (Frame, bool) {
	n.mu.Lock()
	defer n.mu.Unlock()
	b := &n.C2G
	if dir != "c2g" {
		b = &n.G2C
	}
	if i < 0 || i >= len(*b) {
		return Frame{}, false
	}
	f := (*b)[i]
	*b = append(append([]Frame{}, (*b)[:i]...), (*b)[i+1:]...)
	return f, true
}

// Peek returns element i without removing it.
func (n *Net) Peek(dir string, i int) (Frame, bool) {
	n.mu.Lock()
	defer n.mu.Unlock()
	b := n.C2G
	if dir != "c2g" {
		b = n.G2C
	}
	if i < 0 || i >= len(b) {
		return Frame{}, false
	}
	return b[i], true
}

// Gateway is a KNXnet/IP tunnelling server that follows the rules: accept the expected
// sequence number, re-acknowledge the previous one, ignore others, repeat its own
// unacknowledged request, give up with a disconnect request.
type Gateway struct {
	Rec *Recorder
	TCP bool

	Connected bool
	Chan      int
	Expect    uint8 // next sequence number expected from the client
	Seq       uint8 // sequence number of the gateway's next own request
	Pending   bool  // an own request is unacknowledged
	PendPid   int
	PendFrame Frame
	Retries   int

	NextChan     int    // channel assigned by the next successful connect
	ConnPolicy   string // ok | busy | refuse | silent
	HbPolicy     string // ok | err | silent | foreign
	HbStatus     int    // status used with HbPolicy err
	AckStatus    int    // status of tunnelling acks (0 normally)
	RefuseStatus int    // status of a refusing connect response (0 = E_CONNECTION_TYPE)

	Bus    []int // payload ids put on the bus, in order
	Acked  []int // payload ids of own requests that were acknowledged, in order
	Epochs int
	Att    int // connect attempt that created the current connection
}

func NewGateway(rec *Recorder, tcp bool) *Gateway {
	return &Gateway{Rec: rec, TCP: tcp, NextChan: 1, ConnPolicy: "ok", HbPolicy: "ok", HbStatus: 0x21}
}

func (g *Gateway) send(out *[]Frame, p knxnet.ServicePackable) {
	f := Build(p)
	g.Rec.FrameEv("GwSend", f, -1)
	*out = append(*out, f)
}

// Recv processes a frame from the client and returns the frames the gateway sends back.
func (g *Gateway) Recv(f Frame) []Frame {
	var out []Frame
	g.Rec.FrameEv("GwRecv", f, -1)
	switch s := f.Srv.(type) {
	case *knxnet.ConnReq:
		if g.Connected && f.Att == g.Att && g.ConnPolicy == "ok" {
			// repetition of the request that created this connection: same answer again
			g.send(&out, &knxnet.ConnRes{Channel: uint8(g.Chan), Status: knxnet.NoError, Control: s.Control})
			break
		}
		if f.Att < g.Att {
			break // a datagram of an earlier attempt that outlived its connection
		}
		switch g.ConnPolicy {
		case "ok":
			g.Att = f.Att
			g.Connected = true
			g.Chan = g.NextChan
			g.Expect, g.Seq, g.Pending = 0, 0, false
			g.Epochs++
			g.Rec.Simple("GwConnected", -1, g.Chan, g.Epochs, "")
			g.send(&out, &knxnet.ConnRes{Channel: uint8(g.Chan), Status: knxnet.NoError, Control: s.Control})
		case "busy":
			g.send(&out, &knxnet.ConnRes{Channel: 0, Status: knxnet.ErrNoMoreConnections})
		case "refuse":
			var st knxnet.ErrCode = knxnet.ErrConnectionType
			if g.RefuseStatus != 0 {
				st = knxnet.ErrCode(g.RefuseStatus)
			}
			g.send(&out, &knxnet.ConnRes{Channel: 0, Status: st})
		}
	case *knxnet.ConnStateReq:
		// fault policies apply whatever the connection state (as NetToGwFault of the specification)
		switch g.HbPolicy {
		case "ok":
			if g.Connected && int(s.Channel) == g.Chan {
				g.send(&out, &knxnet.ConnStateRes{Channel: s.Channel, Status: knxnet.NoError})
			} else {
				g.send(&out, &knxnet.ConnStateRes{Channel: s.Channel, Status: knxnet.ErrConnectionID})
			}
		case "err":
			g.send(&out, &knxnet.ConnStateRes{Channel: s.Channel, Status: knxnet.ErrCode(g.HbStatus)})
		case "foreign":
			g.send(&out, &knxnet.ConnStateRes{Channel: s.Channel + 7, Status: knxnet.NoError})
		}
	case *knxnet.DiscReq:
		if g.Connected && int(s.Channel) == g.Chan {
			g.Connected = false
			g.Pending = false
			g.Rec.Simple("GwDisconnected", -1, g.Chan, -1, "client")
			g.send(&out, &knxnet.DiscRes{Channel: s.Channel, Status: 0})
		}
	case *knxnet.DiscRes:
		// answer to our own disconnect request; nothing to do.
	case *knxnet.TunnelReq:
		if !g.Connected || int(s.Channel) != g.Chan {
			break
		}
		if g.TCP {
			g.Bus = append(g.Bus, f.Pid)
			g.Rec.Simple("GwBus", -1, f.Pid, int(s.SeqNumber), "")
			break
		}
		if s.SeqNumber == g.Expect {
			g.Expect++
			g.Bus = append(g.Bus, f.Pid)
			g.Rec.Simple("GwBus", -1, f.Pid, int(s.SeqNumber), "")
			g.send(&out, &knxnet.TunnelRes{Channel: s.Channel, SeqNumber: s.SeqNumber, Status: knxnet.ErrCode(g.AckStatus)})
		} else if s.SeqNumber == g.Expect-1 {
			g.send(&out, &knxnet.TunnelRes{Channel: s.Channel, SeqNumber: s.SeqNumber, Status: knxnet.ErrCode(g.AckStatus)})
		}
	case *knxnet.TunnelRes:
		if g.Connected && int(s.Channel) == g.Chan && g.Pending && s.SeqNumber == g.Seq && s.Status == 0 {
			g.Pending = false
			g.Seq++
			g.Acked = append(g.Acked, g.PendPid)
			g.Rec.Simple("GwAcked", -1, g.PendPid, int(s.SeqNumber), "")
		}
	}
	return out
}

// Telegram makes the gateway forward bus telegram pid to the client.
func (g *Gateway) Telegram(pid int) []Frame {
	var out []Frame
	if !g.Connected || g.Pending {
		return nil
	}
	g.Pending, g.PendPid, g.Retries = true, pid, 0
	seq := g.Seq
	if g.TCP {
		seq = 0
		g.Pending = false
	}
	f := Build(&knxnet.TunnelReq{Channel: uint8(g.Chan), SeqNumber: seq, Payload: Payload(pid, true)})
	g.PendFrame = f
	g.Rec.Simple("GwTelegram", -1, pid, int(seq), "")
	g.Rec.FrameEv("GwSend", f, -1)
	return append(out, f)
}

// Resend repeats the pending request.
func (g *Gateway) Resend() []Frame {
	if !g.Connected || !g.Pending {
		return nil
	}
	g.Retries++
	g.Rec.FrameEv("GwSend", g.PendFrame, -1)
	return []Frame{g.PendFrame}
}

// GiveUp abandons the connection with a disconnect request.
func (g *Gateway) GiveUp() []Frame {
	if !g.Connected {
		return nil
	}
	var out []Frame
	ch := g.Chan
	g.Connected, g.Pending = false, false
	g.Rec.Simple("GwDisconnected", -1, ch, -1, "gateway")
	g.send(&out, &knxnet.DiscReq{Channel: uint8(ch)})
	return out
}
