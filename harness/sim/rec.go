// Package sim contains the simulated environment of the knx-go clients: an in-memory
// knxnet.Socket, a fault-injecting network, a rule-following KNXnet/IP gateway and the
// event recorder. Everything these components do is logged as one ndjson event, so that
// TLC can check the environment against its TLA+ definition as well as the client.
package sim

import (
	"bufio"
	"encoding/hex"
	"encoding/json"
	"io"
	"sync"
	"time"

	"github.com/vapourismo/knx-go/knx/cemi"
	"github.com/vapourismo/knx-go/knx/knxnet"
)

// Ev is one trace event. All events carry the same keys so that TLA+ can access any
// field of any record without a guard (missing values are -1 / "").
type Ev struct {
	K   string `json:"k"`   // kind
	N   int    `json:"n"`   // per-trace sequence number (assigned under the recorder lock)
	T   int64  `json:"t"`   // microseconds since trace start (virtual in a bubble)
	G   int    `json:"g"`   // application goroutine / closer id, or -1
	Svc string `json:"svc"` // frame service name, or ""
	Ch  int    `json:"ch"`  // frame channel, or -1
	Seq int    `json:"seq"` // frame sequence number, or -1
	St  int    `json:"st"`  // frame status, or -1
	Pid int    `json:"pid"` // telegram payload id, or -1
	Hex string `json:"hex"` // raw frame bytes (hex) for Out/In/Rx, else ""
	A   int    `json:"a"`   // kind specific integer argument
	B   int    `json:"b"`   // kind specific integer argument
	S   string `json:"s"`   // kind specific string argument
}

// Recorder serialises events.
type Recorder struct {
	mu    sync.Mutex
	n     int
	start time.Time
	w     *bufio.Writer
	Count map[string]int
	Keep  []Ev // optional in-memory copy
	keep  bool
}

func NewRecorder(w io.Writer, keep bool) *Recorder {
	return &Recorder{w: bufio.NewWriterSize(w, 1<<16), Count: map[string]int{}, keep: keep}
}

// Begin starts a new trace (time and sequence restart).
func (r *Recorder) Begin() {
	r.mu.Lock()
	r.n = 0
	r.start = time.Now()
	r.mu.Unlock()
}

func blank(k string) Ev {
	return Ev{K: k, G: -1, Ch: -1, Seq: -1, St: -1, Pid: -1, A: -1, B: -1}
}

// TryAtomic runs try under the recorder lock and records e iff it succeeded, so that no
// other event can be recorded between the attempted action and its event.
func (r *Recorder) TryAtomic(try func() bool, e Ev) bool {
	r.mu.Lock()
	if !try() {
		r.mu.Unlock()
		return false
	}
	r.emitLocked(e)
	r.mu.Unlock()
	return true
}

// Emit records e (N and T are filled in here, under the lock).
func (r *Recorder) Emit(e Ev) {
	r.mu.Lock()
	r.emitLocked(e)
	r.mu.Unlock()
}

func (r *Recorder) emitLocked(e Ev) {
	r.n++
	e.N = r.n
	e.T = int64(time.Since(r.start) / time.Microsecond)
	b, _ := json.Marshal(e)
	r.w.Write(b)
	r.w.WriteByte('\n')
	r.Count[e.K]++
	if r.keep {
		r.Keep = append(r.Keep, e)
	}
}

// CountOf returns how many events of kind k were recorded so far.
func (r *Recorder) CountOf(k string) int {
	r.mu.Lock()
	defer r.mu.Unlock()
	return r.Count[k]
}

func (r *Recorder) Flush() {
	r.mu.Lock()
	r.w.Flush()
	r.mu.Unlock()
}

// Simple emits an event without frame fields.
func (r *Recorder) Simple(k string, g, a, b int, s string) {
	e := blank(k)
	e.G, e.A, e.B, e.S = g, a, b, s
	r.Emit(e)
}

// Frame is the projection of a KNXnet/IP frame onto the trace vocabulary.
type Frame struct {
	Raw []byte
	Srv knxnet.Service // decoded from Raw
	Svc string
	Ch  int
	Seq int
	St  int
	Pid int
	Aux int // ConnReq: layer; RoutingLost: count; RoutingBusy: wait ms
	Str string
	Aid int // arrival id (set by MemSock.Arrive)
	Att int // connect attempt number (ConnReq frames, set by the driver; not on the wire)
}

func (f Frame) ev(k string) Ev {
	e := blank(k)
	e.Svc, e.Ch, e.Seq, e.St, e.Pid, e.Hex, e.A, e.S = f.Svc, f.Ch, f.Seq, f.St, f.Pid, hex.EncodeToString(f.Raw), f.Aux, f.Str
	e.B = f.Aid
	return e
}

func (r *Recorder) FrameEv(k string, f Frame, g int) {
	e := f.ev(k)
	e.G = g
	r.Emit(e)
}

// PidOf extracts the payload id the harness put into a cEMI message (3 data bytes:
// 0, hi, lo), or -1.
func PidOf(m cemi.Message) int {
	var ld *cemi.LData
	switch m := m.(type) {
	case *cemi.LDataReq:
		ld = &m.LData
	case *cemi.LDataInd:
		ld = &m.LData
	case *cemi.LDataCon:
		ld = &m.LData
	default:
		return -1
	}
	app, ok := ld.Data.(*cemi.AppData)
	if !ok || len(app.Data) != 3 {
		return -1
	}
	return int(app.Data[1])<<8 | int(app.Data[2])
}

// Payload builds the cEMI telegram carrying payload id pid. ind selects L_Data.ind
// (gateway -> client) instead of L_Data.req.
func Payload(pid int, ind bool) cemi.Message {
	// Everything the clients must treat alike varies with the payload id - priority, repeat flag, hop count, source,
	// destination group, write / response - so that a client that orders, filters or merges telegrams by their
	// content (a priority queue, a per-destination cache) shows.
	prio := []cemi.Priority{cemi.PrioLow, cemi.PrioNormal, cemi.PrioUrgent, cemi.PrioSystem}[(pid/3)%4]
	c1 := cemi.Control1StdFrame | cemi.Control1NoSysBroadcast | cemi.Control1Prio(prio)
	if (pid/5)%2 == 0 {
		c1 |= cemi.Control1NoRepeat
	}
	cmd := cemi.GroupValueWrite
	if (pid/7)%3 == 1 {
		cmd = cemi.GroupValueResponse
	}
	ld := cemi.LData{
		Control1:    c1,
		Control2:    cemi.Control2GroupAddr | cemi.Control2Hops(uint8(4 + (pid/11)%3)),
		Source:      cemi.NewIndividualAddr3(1, 1, uint8(7+(pid/2)%5)),
		Destination: uint16(cemi.NewGroupAddr3(1, 2, uint8(3+pid%4))),
		Data:        &cemi.AppData{Command: cmd, Data: []byte{0, byte(pid >> 8), byte(pid)}},
	}
	if ind {
		return &cemi.LDataInd{LData: ld}
	}
	return &cemi.LDataReq{LData: ld}
}

func hostStr(h knxnet.HostInfo) string {
	return h.Address.String() + ":" + itoa(int(h.Port)) + "/" + itoa(int(h.Protocol))
}

func itoa(i int) string {
	b, _ := json.Marshal(i)
	return string(b)
}

// Project decodes raw (with the real decoder) and projects it.
func Project(raw []byte) Frame {
	f := Frame{Raw: raw, Svc: "Malformed", Ch: -1, Seq: -1, St: -1, Pid: -1, Aux: -1}
	var srv knxnet.Service
	func() {
		defer func() {
			if recover() != nil {
				srv = nil
			}
		}()
		if _, err := knxnet.Unpack(raw, &srv); err != nil {
			srv = nil
		}
	}()
	if srv == nil {
		return f
	}
	f.Srv = srv
	switch s := srv.(type) {
	case *knxnet.ConnReq:
		f.Svc, f.Aux, f.Str = "ConnReq", int(s.Layer), hostStr(s.Control)+","+hostStr(s.Tunnel)
	case *knxnet.ConnRes:
		f.Svc, f.Ch, f.St = "ConnRes", int(s.Channel), int(s.Status)
	case *knxnet.ConnStateReq:
		f.Svc, f.Ch, f.St, f.Str = "ConnStateReq", int(s.Channel), int(s.Status), hostStr(s.Control)
	case *knxnet.ConnStateRes:
		f.Svc, f.Ch, f.St = "ConnStateRes", int(s.Channel), int(s.Status)
	case *knxnet.DiscReq:
		f.Svc, f.Ch, f.St, f.Str = "DiscReq", int(s.Channel), int(s.Status), hostStr(s.Control)
	case *knxnet.DiscRes:
		f.Svc, f.Ch, f.St = "DiscRes", int(s.Channel), int(s.Status)
	case *knxnet.TunnelReq:
		f.Svc, f.Ch, f.Seq, f.Pid = "TunnelReq", int(s.Channel), int(s.SeqNumber), PidOf(s.Payload)
	case *knxnet.TunnelRes:
		f.Svc, f.Ch, f.Seq, f.St = "TunnelRes", int(s.Channel), int(s.SeqNumber), int(s.Status)
	case *knxnet.RoutingInd:
		f.Svc, f.Pid = "RoutingInd", PidOf(s.Payload)
	case *knxnet.RoutingLost:
		f.Svc, f.St, f.Aux = "RoutingLost", int(s.Status), int(s.Count)
	case *knxnet.RoutingBusy:
		f.Svc, f.St, f.Aux, f.Seq = "RoutingBusy", int(s.Status), int(s.WaitTime/time.Millisecond), int(s.Control)
	default:
		f.Svc = "Other"
	}
	return f
}

// Build encodes a frame value with the real encoder and projects it.
func Build(p knxnet.ServicePackable) Frame {
	return Project(knxnet.AllocAndPack(p))
}

// RawBusy / RawLost build routing frames the library cannot encode itself.
func RawBusy(status int, waitMs int, control int) Frame {
	raw := []byte{6, 0x10, 0x05, 0x32, 0, 12, 6, byte(status), byte(waitMs >> 8), byte(waitMs), byte(control >> 8), byte(control)}
	return Project(raw)
}

func RawLost(status int, count int) Frame {
	raw := []byte{6, 0x10, 0x05, 0x31, 0, 10, 4, byte(status), byte(count >> 8), byte(count)}
	return Project(raw)
}
