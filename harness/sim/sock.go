package sim

import (
	"errors"
	"net"
	"runtime"
	"sync"
	"time"

	"github.com/vapourismo/knx-go/knx/knxnet"
)

// MemSock is an in-memory knxnet.Socket with the shape of the real one: a receive queue
// (the OS buffer) and one pump goroutine that hands frames to the client over an
// unbuffered channel and closes that channel when the socket is closed.
//
// Linearization: the hand-off of a frame to the client and its "In" event happen
// atomically under the recorder lock (a non-blocking channel send that only succeeds
// when a client goroutine is already parked on Inbound()). Every "Out" event is
// recorded inside Send, i.e. inside whatever lock the client holds while sending. So the
// order of In/Out events in the trace is the order in which the client took in and
// emitted frames.
type MemSock struct {
	Rec       *Recorder
	TCP       bool
	Poll      time.Duration // fallback retry period while a frame waits for the client
	OnTx      func(Frame)   // called for every frame the client transmits (after the Out event)
	OnIn      func(Frame)   // called when the client has taken a frame (under the recorder lock)
	DiscDelay time.Duration // the socket write of a disconnect request takes this long

	mu       sync.Mutex
	rxq      []Frame
	aid      int
	sig      chan struct{}
	ready    chan struct{}
	in       chan knxnet.Service
	closed   chan struct{}
	once     sync.Once
	failSend bool
	failNext string
	offering bool
	Linger   time.Duration // see pump
	pumpDone chan struct{}
}

func NewMemSock(rec *Recorder, tcp bool, poll time.Duration) *MemSock {
	s := &MemSock{
		Rec: rec, TCP: tcp, Poll: poll,
		sig:      make(chan struct{}, 1),
		ready:    make(chan struct{}, 1),
		in:       make(chan knxnet.Service),
		closed:   make(chan struct{}),
		pumpDone: make(chan struct{}),
	}
	go s.pump()
	return s
}

func (s *MemSock) pump() {
	defer close(s.pumpDone)
	defer close(s.in)
	for {
		s.mu.Lock()
		var f Frame
		have := len(s.rxq) > 0
		if have {
			f = s.rxq[0]
			s.rxq = s.rxq[1:]
		}
		s.offering = have // (the frame the pump holds until its hand-off still counts as pending)
		s.mu.Unlock()
		if !have {
			select {
			case <-s.sig:
				continue
			case <-s.closed:
				return
			}
		}
		try := func() bool {
			select {
			case s.in <- f.Srv:
				if s.OnIn != nil {
					s.OnIn(f)
				}
				return true
			default:
				return false
			}
		}
		var lingerEnd time.Time
	offer:
		for {
			for i := 0; i < 200; i++ {
				if s.Rec.TryAtomic(try, f.ev("In")) {
					break offer
				}
				runtime.Gosched()
			}
			var tick <-chan time.Time
			if s.Poll > 0 {
				tick = time.After(s.Poll)
			}
			select {
			case <-s.ready:
			case <-tick:
			case <-s.closed:
				// A real receiver that is blocked on its hand-off when the socket is closed may still hand that one frame
				// over (its select takes either ready arm). With Linger the hand-off in progress stays on offer that long.
				if s.Linger <= 0 {
					return
				}
				if lingerEnd.IsZero() {
					lingerEnd = time.Now().Add(s.Linger)
				}
				if time.Now().After(lingerEnd) {
					return
				}
				time.Sleep(200 * time.Microsecond)
			}
		}
		if !lingerEnd.IsZero() {
			return // the socket is closed: nothing after the frame that was in flight
		}
	}
}

// Arrive puts a frame into the receive queue (event Rx). Malformed frames are dropped
// as the real receiver does.
func (s *MemSock) Arrive(f Frame) {
	if s.IsClosed() || f.Srv == nil {
		s.Rec.FrameEv("RxDrop", f, -1)
		return
	}
	s.mu.Lock()
	s.aid++
	f.Aid = s.aid
	s.Rec.FrameEv("Rx", f, -1)
	s.rxq = append(s.rxq, f)
	s.mu.Unlock()
	select {
	case s.sig <- struct{}{}:
	default:
	}
}

// Pending returns the number of frames waiting in the receive queue.
func (s *MemSock) Pending() int {
	s.mu.Lock()
	defer s.mu.Unlock()
	if s.offering {
		return len(s.rxq) + 1
	}
	return len(s.rxq)
}

// FailSend makes every later Send return an error.
// FailNext makes the next Send of a frame of service type svc fail once (a transient local error such as ENOBUFS).
func (s *MemSock) FailNext(svc string) {
	s.mu.Lock()
	s.failNext = svc
	s.mu.Unlock()
}

func (s *MemSock) FailSend(on bool) {
	s.mu.Lock()
	s.failSend = on
	s.mu.Unlock()
}

// Kill closes the inbound channel as a read error of the real socket would.
func (s *MemSock) Kill() {
	s.once.Do(func() { close(s.closed) })
}

func (s *MemSock) IsClosed() bool {
	select {
	case <-s.closed:
		return true
	default:
		return false
	}
}

// PumpDone is closed when the receiver goroutine has ended.
func (s *MemSock) PumpDone() <-chan struct{} { return s.pumpDone }

// ---- knxnet.Socket ----

func (s *MemSock) Send(p knxnet.ServicePackable) error {
	s.mu.Lock()
	fail := s.failSend
	once := s.failNext
	s.mu.Unlock()
	f := Build(p)
	if once != "" && once == f.Svc {
		s.mu.Lock()
		s.failNext = ""
		s.mu.Unlock()
		fail = true
	}
	if fail || s.IsClosed() {
		s.Rec.FrameEv("OutErr", f, -1)
		return errors.New("sim: socket send failed")
	}
	if s.DiscDelay > 0 && f.Svc == "DiscReq" {
		time.Sleep(s.DiscDelay)
	}
	s.Rec.FrameEv("Out", f, -1)
	if s.OnTx != nil {
		s.OnTx(f)
	}
	return nil
}

// Inbound is evaluated by the tunnel client right before it parks in a select; the pump
// uses that as a hint to retry its hand-off.
func (s *MemSock) Inbound() <-chan knxnet.Service {
	select {
	case s.ready <- struct{}{}:
	default:
	}
	return s.in
}

func (s *MemSock) Close() error {
	s.Rec.Simple("SockClose", -1, -1, -1, "")
	s.Kill()
	return nil
}

func (s *MemSock) LocalAddr() net.Addr {
	if s.TCP {
		return &net.TCPAddr{IP: net.IPv4(127, 0, 0, 1), Port: 40001}
	}
	return &net.UDPAddr{IP: net.IPv4(127, 0, 0, 1), Port: 40001}
}
