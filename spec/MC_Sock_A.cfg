SPECIFICATION Spec
CONSTANTS
  Frames <- FramesA
  MaxSeg = 31
INVARIANTS InOrderOnce Complete NoOverread
PROPERTY ClosedAfter
CHECK_DEADLOCK FALSE
