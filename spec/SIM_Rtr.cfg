SPECIFICATION MCSpec
CONSTANTS
  Senders = {1, 2, 3}
  MaxSend = 7
  Pause = 2
  Retain = 3
  Cap = 50
  Waits = {0, 1, 3, 60}
  Counts = {0, 1, 2, 3, 4, 65535}
  MaxInd = 4
  MaxBusy = 3
  MaxLost = 3
  FailBudget = 2
  MaxNow = 200
  EnableClose = TRUE
  Ctrls = {0, 1}
  Urgent = FALSE
INVARIANTS Bounded NoDupDelivery ObsQuiet
CHECK_DEADLOCK FALSE
