SPECIFICATION Spec
CONSTANT Family = "C11"
INVARIANTS ThmC11 ThmCtrl
CHECK_DEADLOCK FALSE
