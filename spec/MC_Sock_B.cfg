SPECIFICATION Spec
CONSTANTS
  Frames <- FramesB
  MaxSeg = 43
INVARIANTS InOrderOnce Complete NoOverread
PROPERTY ClosedAfter
CHECK_DEADLOCK FALSE
