------------------------------- MODULE Tunnel -------------------------------
(***************************************************************************)
(* Implementation-shaped specification of knx-go's tunnel client           *)
(* (knx/tunnel.go) composed with its environment: the socket receive       *)
(* queue, a lossy / duplicating / reordering datagram network, a           *)
(* rule-following KNXnet/IP gateway, application goroutines and a clock.   *)
(*                                                                         *)
(* One action per critical section / select arm of the Go code:            *)
(*   requestConn      -> ConnResend ConnTimeout ConnTake* ConnLock         *)
(*   requestTunnel    -> SendLock SendFirstTx SendResend SendTimeout       *)
(*                       SendTakeAck SendAckClosed                         *)
(*   handleTunnelRes  -> (in ProcTake) spawn ackOffers; AckOfferExpire     *)
(*   process          -> ProcTake ProcAckOut ProcDiscRes ProcHbTick        *)
(*                       ProcFailSignal ProcDone                           *)
(*   performHeartbeat -> HbSend HbResend HbTimeout HbTakeRes HbReport      *)
(*   pushInbound      -> direct hand-off or Park / ParkReach / AppRecv     *)
(*   serve            -> ServeReconnect ServeExit                          *)
(*   Close            -> CloseEnter CloseDisc CloseSignal CloseWait        *)
(* Every step emits at most one event `ev` in the observer vocabulary      *)
(* (TunObs) and names the environment choice it corresponds to in `act`    *)
(* (projected onto driver schedules by lib/tlcsched.py).                   *)
(***************************************************************************)
EXTENDS Integers, Sequences, FiniteSets, TLC

CONSTANTS
  Senders,      \* application goroutines that call Send, e.g. {1, 2}
  MaxSend,      \* total number of Send calls
  MaxTele,      \* telegrams the gateway forwards to the client
  M,            \* sequence-number modulus (256 in the code)
  R, T, H,      \* resend interval, response timeout, heartbeat interval (ticks)
  MaxNow,       \* clock bound
  MaxNet,       \* datagrams in flight per direction
  MaxRxq,       \* datagrams waiting in the socket's receive queue
  MaxGwResend,  \* repetitions of one telegram by the gateway
  DupBudget, LossBudget, InjBudget,
  AdvReq,       \* the adversary also forges tunnelling requests (C04)
  GwFaultBudget,\* how often the gateway may answer a heartbeat / connect request badly or not at all (C09)
  MaxEpoch,     \* connection epochs
  EnableHB, EnableClose, EnableG2C, Adversary, UseTCP,
  Urgent,       \* TRUE: client steps and due timers pre-empt every environment step (conformance generation)
  AckChanCheck, \* TRUE: requestTunnel also compares the acknowledgement's channel (the code since the second fix: commit)
  WFailBudget,  \* how many socket writes may fail with a transient local error (ENOBUFS and the like), C05 / C04
  ChanUnderLock \* TRUE: requestConn assigns the channel under seqMu (the code since the fix: commit); FALSE: before the lock (the pinned tree)

VARIABLES
  now,
  srv,          \* serve goroutine: [pc, a, b]
  chan, sndSeq, rcvSeq,
  conn,         \* requestConn timers: [next, dead]
  mu,           \* seqMu holder: 0 none, g sender, -1 serve
  muq,          \* goroutines waiting for seqMu, FIFO (Go's mutex hands over in arrival order once a waiter starves > 1 ms)
  snd,          \* snd[g]: requestTunnel activation
  offers,       \* ack relay goroutines: set of [seq, st, exp, id]
  hbNext,       \* heartbeat ticker
  hb,           \* heartbeat workers: set of [id, ch, next, dead, pc]
  hbOffers,     \* connection-state relay goroutines: set of [st, exp, id]
  failSig,      \* a worker is offering on `timeout`
  ackOpen, inbOpen, done, once, closer,
  starting, queued, reader, got, delivered,   \* pushInbound goroutines / channel queue / application
  rxq, sockOpen,
  c2g, g2c, dups, losses, injs, gwf,
  wf, wfn,      \* wf: service type whose next socket write fails ("" = none armed); wfn: failures armed so far
  gw,           \* gateway: [conn, ch, expect, seq, pend]
  bus, nsend, ntele, nid, epoch,
  ev, act

vars == <<now, srv, chan, sndSeq, rcvSeq, conn, mu, muq, snd, offers, hbNext, hb, hbOffers, failSig,
          ackOpen, inbOpen, done, once, closer, starting, queued, reader, got, delivered, rxq, sockOpen,
          c2g, g2c, dups, losses, injs, gwf, wf, wfn, gw, bus, nsend, ntele, nid, epoch, ev, act>>

\* Everything except the labels `ev` and `act`. The histories `delivered` and `bus` stay in the view: the invariants
\* NoDupDelivery / BusNoDup read them, and TLC evaluates an invariant only on states whose VIEW is new - hiding them
\* would let a violating state be discarded as a duplicate of a harmless one. `nid` stays because worker ids flow into `hb`.
view == <<now, srv, chan, sndSeq, rcvSeq, conn, mu, muq, snd, offers, hbNext, hb, hbOffers, failSig,
          ackOpen, inbOpen, done, once, closer, starting, queued, reader, got, delivered, rxq, sockOpen,
          c2g, g2c, dups, losses, injs, gwf, wf, wfn, gw, bus, nsend, ntele, nid, epoch>>

NoEv == [k |-> "none", t |-> 0, g |-> -1, svc |-> "", ch |-> -1, seq |-> -1, st |-> -1, pid |-> -1,
         hex |-> "", a |-> -1, b |-> -1, s |-> ""]
Unit == 1000            \* microseconds per tick in emitted events
Tm == now * Unit

Frame(svc, ch, seq, st, pid) == [svc |-> svc, ch |-> ch, seq |-> seq, st |-> st, pid |-> pid]
FrEv(k, f) == [NoEv EXCEPT !.k = k, !.t = Tm, !.svc = f.svc, !.ch = f.ch, !.seq = f.seq, !.st = f.st, !.pid = f.pid,
                           !.hex = ToString(<<f.svc, f.ch, f.seq, f.st, f.pid>>)]
SimEv(k, g, pid, s) == [NoEv EXCEPT !.k = k, !.t = Tm, !.g = g, !.pid = pid, !.s = s]
NoF == [svc |-> "", ch |-> -1, seq |-> -1, st |-> -1, pid |-> -1]
Act(name, g) == [n |-> name, g |-> g, f |-> NoF]
ActF(name, f) == [n |-> name, g |-> 0, f |-> f]

\* Timers of the client due at this instant. When several are due, which fires first is the Go runtime's
\* choice: the action is then labelled "choice" (a behaviour is reproducible step by step only up to there).
DueCount ==
  (IF srv.pc = "conn" /\ conn.next = now THEN 1 ELSE 0) + (IF srv.pc = "conn" /\ conn.dead = now THEN 1 ELSE 0)
  + Cardinality({g \in Senders : snd[g].st = "waiting" /\ snd[g].next = now})
  + Cardinality({g \in Senders : snd[g].st = "waiting" /\ snd[g].dead = now})
  + Cardinality({o \in offers : o.exp = now}) + Cardinality({o \in hbOffers : o.exp = now})
  + Cardinality({w \in hb : w.pc = "wait" /\ w.next = now}) + Cardinality({w \in hb : w.pc = "wait" /\ w.dead = now})
  + (IF srv.pc = "proc" /\ hbNext = now /\ ~done THEN 1 ELSE 0)
TAct(g) == Act(IF DueCount > 1 THEN "choice" ELSE "timer", g)

Idle == [st |-> "idle", pid |-> -1, seq |-> -1, ch |-> -1, next |-> -1, dead |-> -1]

\* ---- bags as functions frame -> count -----------------------------------
BagAdd(b, f) == IF f \in DOMAIN b THEN [b EXCEPT ![f] = @ + 1] ELSE b @@ (f :> 1)
BagDel(b, f) == IF b[f] = 1 THEN [x \in DOMAIN b \ {f} |-> b[x]] ELSE [b EXCEPT ![f] = @ - 1]
\* Datagram lifetime: the property assumes that no datagram outlives M - 2 later exchanges ("lifetime below the sequence
\* wrap"). When a counter advances to a number that has been used before (at least M exchanges so far), whatever still
\* carries that number in the same direction and channel is older than that and is gone.
Purge(b, svc, ch, seq) == [f \in {x \in DOMAIN b : ~(x.svc = svc /\ x.ch = ch /\ x.seq = seq)} |-> b[f]]
BagSize(b) == LET S == DOMAIN b
                  RECURSIVE Sum(_)
                  Sum(X) == IF X = {} THEN 0 ELSE LET x == CHOOSE x \in X : TRUE IN b[x] + Sum(X \ {x})
              IN Sum(S)
EmptyBag == << >>

Init ==
  /\ now = 0
  /\ srv = [pc |-> "conn", a |-> -1, b |-> -1]
  /\ chan = 0 /\ sndSeq = 0 /\ rcvSeq = 0
  /\ conn = [next |-> R, dead |-> T]
  /\ mu = 0 /\ muq = << >>
  /\ snd = [g \in Senders |-> Idle]
  /\ offers = {} /\ hbNext = -1 /\ hb = {} /\ hbOffers = {} /\ failSig = FALSE
  /\ ackOpen = TRUE /\ inbOpen = TRUE /\ done = FALSE /\ once = FALSE /\ closer = "none"
  /\ starting = {} /\ queued = << >> /\ reader = "idle" /\ got = -1 /\ delivered = << >>
  /\ rxq = << >> /\ sockOpen = TRUE
  /\ c2g = BagAdd(EmptyBag, Frame("ConnReq", -1, 0, -1, -1)) /\ g2c = EmptyBag /\ dups = 0 /\ losses = 0 /\ injs = 0 /\ gwf = 0 /\ wf = "" /\ wfn = 0
  /\ gw = [conn |-> FALSE, ch |-> 0, expect |-> 0, seq |-> 0, pend |-> -1, att |-> -1, rs |-> 0]
  /\ bus = << >> /\ nsend = 0 /\ ntele = 0 /\ nid = 0 /\ epoch = 0
  /\ ev = FrEv("Out", Frame("ConnReq", -1, 0, -1, -1))
  /\ act = Act("new", 0)

\* the client transmits f (socket Send): event Out, datagram into the network
\* ... unless a transient local error is armed for this service type: then the write fails (event OutErr),
\* nothing is transmitted, and the caller sees the error (each call site says what it does with it)
WFails(f) == wf # "" /\ wf = f.svc
Tx(f) == /\ ~WFails(f)
         /\ ev' = FrEv("Out", f)
         /\ c2g' = IF BagSize(c2g) < MaxNet THEN BagAdd(c2g, f) ELSE c2g   \* overflow = loss
         /\ wf' = wf
TxErr(f) == /\ WFails(f)
            /\ ev' = FrEv("OutErr", f)
            /\ c2g' = c2g /\ wf' = ""

-----------------------------------------------------------------------------
(* requestConn *)

ConnResend ==
  /\ srv.pc = "conn" /\ conn.next = now
  /\ Tx(Frame("ConnReq", -1, epoch, -1, -1))
  /\ conn' = [conn EXCEPT !.next = now + R]
  /\ act' = TAct(0)
  /\ UNCHANGED <<now, srv, chan, sndSeq, rcvSeq, mu, muq, snd, offers, hbNext, hb, hbOffers, failSig, ackOpen, inbOpen, done,
                 once, closer, starting, queued, reader, got, delivered, rxq, sockOpen, g2c, dups, losses, injs, gwf, gw, bus, nsend, ntele, nid, epoch>>

\* serve() ends: close(inbound), close(ack)
ServeExitTo(s) ==
  /\ srv' = s
  /\ inbOpen' = FALSE /\ ackOpen' = FALSE
  /\ queued' = << >> /\ starting' = {}     \* parked senders panic and recover
  /\ reader' = IF reader = "waiting" THEN "idle" ELSE reader
  /\ offers' = {}                         \* relay goroutines blocked on the closed ack channel panic and recover

\* the repetition's write fails: requestConn returns the error, serve gives up
ConnResendErr ==
  /\ srv.pc = "conn" /\ conn.next = now
  /\ TxErr(Frame("ConnReq", -1, epoch, -1, -1))
  /\ ServeExitTo([pc |-> "gone", a |-> -1, b |-> -1])
  /\ hb' = {} /\ hbOffers' = {} /\ failSig' = FALSE /\ hbNext' = -1
  /\ act' = TAct(0)
  /\ UNCHANGED <<now, chan, sndSeq, rcvSeq, conn, mu, muq, snd, done, once, closer, got,
                 delivered, rxq, sockOpen, g2c, dups, losses, injs, gwf, gw, bus, nsend, ntele, nid, epoch>>

ConnTimeout ==
  /\ srv.pc = "conn" /\ conn.dead = now
  /\ ServeExitTo([pc |-> "gone", a |-> -1, b |-> -1])
  /\ ev' = NoEv /\ act' = TAct(0)
  /\ UNCHANGED <<now, chan, sndSeq, rcvSeq, conn, mu, muq, snd, hbNext, hb, hbOffers, failSig, done, once, closer, got,
                 delivered, rxq, sockOpen, c2g, g2c, dups, losses, injs, gwf, gw, bus, nsend, ntele, nid, epoch>>

\* take a frame from the socket while connecting
ConnTake ==
  /\ srv.pc = "conn" /\ Len(rxq) > 0
  /\ LET f == Head(rxq) IN
     /\ rxq' = Tail(rxq)
     /\ ev' = FrEv("In", f)
     /\ IF f.svc = "ConnRes" /\ f.st = 0
        THEN /\ chan' = IF ChanUnderLock THEN chan ELSE f.ch
             /\ srv' = [pc |-> "connlock", a |-> f.ch, b |-> -1]
             /\ muq' = Append(muq, -1)
             /\ UNCHANGED <<inbOpen, ackOpen, queued, starting, reader, offers>>
        ELSE IF f.svc = "ConnRes" /\ f.st \notin {36, 37}
        THEN /\ ServeExitTo([pc |-> "gone", a |-> -1, b |-> -1]) /\ UNCHANGED <<chan, muq>>
        ELSE UNCHANGED <<srv, chan, muq, inbOpen, ackOpen, queued, starting, reader, offers>>
  /\ act' = Act("take", 0)
  /\ UNCHANGED <<now, sndSeq, rcvSeq, conn, mu, snd, hbNext, hb, hbOffers, failSig, done, once, closer, got,
                 delivered, sockOpen, c2g, g2c, dups, losses, injs, gwf, gw, bus, nsend, ntele, nid, epoch>>

\* seqMu.Lock(); seqNumber = 0; Unlock(); return nil -> process() starts
ConnLock ==
  /\ srv.pc = "connlock" /\ mu = 0 /\ Len(muq) > 0 /\ Head(muq) = -1
  /\ muq' = Tail(muq)
  /\ chan' = srv.a
  /\ sndSeq' = 0 /\ rcvSeq' = 0
  /\ srv' = [pc |-> "proc", a |-> -1, b |-> -1]
  /\ hbNext' = IF EnableHB THEN now + H ELSE -1
  /\ failSig' = FALSE /\ hbOffers' = {}
  /\ hb' = {w \in hb : FALSE}
  /\ epoch' = epoch + 1
  /\ ev' = NoEv /\ act' = Act("internal", 0)
  /\ UNCHANGED <<now, conn, mu, snd, offers, ackOpen, inbOpen, done, once, closer, starting, queued, reader, got, delivered,
                 rxq, sockOpen, c2g, g2c, dups, losses, injs, gwf, gw, bus, nsend, ntele, nid>>

-----------------------------------------------------------------------------
(* requestTunnel *)

AppSend(g) ==
  /\ snd[g].st = "idle" /\ nsend < MaxSend /\ epoch > 0
  /\ nsend' = nsend + 1
  /\ snd' = [snd EXCEPT ![g] = [Idle EXCEPT !.st = "locking", !.pid = 100 + nsend]]
  /\ muq' = Append(muq, g)
  /\ ev' = SimEv("SendCall", g, 100 + nsend, "")
  /\ act' = Act("send", g)
  /\ UNCHANGED <<now, srv, chan, sndSeq, rcvSeq, conn, mu, offers, hbNext, hb, hbOffers, failSig, ackOpen, inbOpen, done, once,
                 closer, starting, queued, reader, got, delivered, rxq, sockOpen, c2g, g2c, dups, losses, injs, gwf, gw, bus, ntele, nid, epoch>>

\* Lock + build request + first transmission (one critical section, the lock stays held)
SendFirstTx(g) ==
  /\ snd[g].st = "locking" /\ mu = 0 /\ Len(muq) > 0 /\ Head(muq) = g
  /\ muq' = Tail(muq)
  /\ LET s == IF UseTCP THEN 0 ELSE sndSeq
         f == Frame("TunnelReq", chan, s, -1, snd[g].pid)
     IN IF sockOpen /\ ~WFails(f)
        THEN /\ Tx(f) /\ mu' = g
             /\ snd' = [snd EXCEPT ![g] = [st |-> IF UseTCP THEN "tcpret" ELSE "waiting", pid |-> snd[g].pid, seq |-> s, ch |-> chan,
                                           next |-> now + R, dead |-> now + T]]
        ELSE IF sockOpen
        THEN \* the first write fails with a transient error: the request is not transmitted; the lock stays held until
             \* requestTunnel has returned the error (next step, SendErrReturn)
             /\ TxErr(f) /\ mu' = g
             /\ snd' = [snd EXCEPT ![g] = [st |-> "errret", pid |-> snd[g].pid, seq |-> s, ch |-> chan, next |-> -1, dead |-> -1]]
        ELSE \* sock.Send on the closed socket fails: requestTunnel returns that error (the deferred Unlock runs)
             /\ snd' = [snd EXCEPT ![g] = Idle] /\ mu' = 0
             /\ ev' = SimEv("SendRet", g, snd[g].pid, "sockerr") /\ UNCHANGED <<c2g, wf>>
  /\ act' = Act("internal", g)
  /\ UNCHANGED <<now, srv, chan, sndSeq, rcvSeq, conn, offers, hbNext, hb, hbOffers, failSig, ackOpen, inbOpen, done, once, closer,
                 starting, queued, reader, got, delivered, rxq, sockOpen, g2c, dups, losses, injs, gwf, gw, bus, nsend, ntele, nid, epoch>>

Return(g, res) ==
  /\ snd' = [snd EXCEPT ![g] = Idle]
  /\ mu' = 0
  /\ ev' = SimEv("SendRet", g, snd[g].pid, res)

SendTcpReturn(g) ==
  /\ snd[g].st \in {"tcpret", "errret"}
  /\ Return(g, IF snd[g].st = "tcpret" THEN "ok" ELSE "sockerr") /\ act' = Act("internal", g)
  /\ UNCHANGED <<now, muq, srv, chan, sndSeq, rcvSeq, conn, offers, hbNext, hb, hbOffers, failSig, ackOpen, inbOpen, done, once, closer,
                 starting, queued, reader, got, delivered, rxq, sockOpen, c2g, g2c, dups, losses, injs, gwf, gw, bus, nsend, ntele, nid, epoch>>

SendResend(g) ==
  /\ snd[g].st = "waiting" /\ snd[g].next = now
  /\ LET f == Frame("TunnelReq", snd[g].ch, snd[g].seq, -1, snd[g].pid) IN
     \/ Tx(f) /\ snd' = [snd EXCEPT ![g].next = now + R]
     \* a retransmission's write fails: requestTunnel returns the error although the first transmission may have
     \* reached the gateway; the sequence number stays (known finding C05-F2)
     \/ TxErr(f) /\ snd' = [snd EXCEPT ![g].st = "errret", ![g].next = -1, ![g].dead = -1]
  /\ act' = TAct(g)
  /\ UNCHANGED <<now, muq, srv, chan, sndSeq, rcvSeq, conn, mu, offers, hbNext, hb, hbOffers, failSig, ackOpen, inbOpen, done, once,
                 closer, starting, queued, reader, got, delivered, rxq, sockOpen, g2c, dups, losses, injs, gwf, gw, bus, nsend, ntele, nid, epoch>>

SendTimeout(g) ==
  /\ snd[g].st = "waiting" /\ snd[g].dead = now
  /\ Return(g, "timeout") /\ act' = TAct(g)
  /\ UNCHANGED <<now, muq, srv, chan, sndSeq, rcvSeq, conn, offers, hbNext, hb, hbOffers, failSig, ackOpen, inbOpen, done, once, closer,
                 starting, queued, reader, got, delivered, rxq, sockOpen, c2g, g2c, dups, losses, injs, gwf, gw, bus, nsend, ntele, nid, epoch>>

\* an acknowledgement relayed by handleTunnelRes is consumed by the waiting sender
SendTakeAck(g) ==
  /\ snd[g].st = "waiting"
  /\ \E o \in offers :
       /\ offers' = IF o.seq = sndSeq /\ (~AckChanCheck \/ o.ch = chan) /\ nsend >= M
                    THEN {x \in offers \ {o} : x.seq # (sndSeq + 1) % M}      \* (lifetime, see Purge)
                    ELSE offers \ {o}
       /\ IF o.seq # sndSeq \/ (AckChanCheck /\ o.ch # chan)
          THEN /\ UNCHANGED <<snd, mu, sndSeq, c2g, g2c>> /\ ev' = NoEv      \* ignore mismatching sequence numbers / stale channels
          ELSE /\ sndSeq' = (sndSeq + 1) % M
               /\ Return(g, IF o.st = 0 THEN "ok" ELSE "rejected")
               /\ c2g' = IF nsend >= M THEN Purge(c2g, "TunnelReq", chan, (sndSeq + 1) % M) ELSE c2g
               /\ g2c' = IF nsend >= M THEN Purge(g2c, "TunnelRes", chan, (sndSeq + 1) % M) ELSE g2c
  \* several acknowledgements on offer: which one the select takes is the Go runtime's choice
  /\ act' = Act(IF Cardinality(offers) > 1 THEN "choice" ELSE "internal", g)
  /\ UNCHANGED <<now, muq, srv, chan, rcvSeq, conn, hbNext, hb, hbOffers, failSig, ackOpen, inbOpen, done, once, closer,
                 starting, queued, reader, got, delivered, rxq, sockOpen, dups, losses, injs, gwf, gw, bus, nsend, ntele, nid, epoch>>

SendAckClosed(g) ==
  /\ snd[g].st = "waiting" /\ ~ackOpen
  /\ Return(g, "terminated") /\ act' = Act("internal", g)
  /\ UNCHANGED <<now, muq, srv, chan, sndSeq, rcvSeq, conn, offers, hbNext, hb, hbOffers, failSig, ackOpen, inbOpen, done, once, closer,
                 starting, queued, reader, got, delivered, rxq, sockOpen, c2g, g2c, dups, losses, injs, gwf, gw, bus, nsend, ntele, nid, epoch>>

\* relay goroutine gives up after the resend interval, or when done is closed
AckOfferExpire ==
  /\ \E o \in offers : (o.exp = now \/ done) /\ offers' = offers \ {o}
  /\ ev' = NoEv /\ act' = TAct(0)
  /\ UNCHANGED <<now, srv, chan, sndSeq, rcvSeq, conn, mu, muq, snd, hbNext, hb, hbOffers, failSig, ackOpen, inbOpen, done, once, closer,
                 starting, queued, reader, got, delivered, rxq, sockOpen, c2g, g2c, dups, losses, injs, gwf, gw, bus, nsend, ntele, nid, epoch>>

-----------------------------------------------------------------------------
(* process(): one select arm per action *)

\* pushInbound: direct hand-off when the application is waiting, else a helper goroutine
Push(pid) ==
  IF reader = "waiting" /\ inbOpen
  THEN /\ got' = pid /\ reader' = "got" /\ UNCHANGED <<starting, queued>> /\ ev' = NoEv
  ELSE /\ starting' = starting \cup {pid} /\ UNCHANGED <<got, reader, queued>>
       /\ ev' = [SimEv("Hook", -1, -1, "tunnel-parked") EXCEPT !.a = -1]

ProcTake ==
  /\ srv.pc = "proc" /\ Len(rxq) > 0 /\ ~done
  /\ LET f == Head(rxq) IN
     /\ LET accept == f.svc = "TunnelReq" /\ f.ch = chan /\ ~UseTCP /\ f.seq = rcvSeq /\ ntele >= M
            stale(x) == x.svc = "TunnelReq" /\ x.ch = chan /\ x.seq = (rcvSeq + 1) % M
        IN /\ rxq' = IF accept THEN SelectSeq(Tail(rxq), LAMBDA x : ~stale(x)) ELSE Tail(rxq)
           /\ g2c' = IF accept THEN Purge(g2c, "TunnelReq", chan, (rcvSeq + 1) % M) ELSE g2c
     /\ ev' = FrEv("In", f)
     /\ CASE f.svc = "TunnelReq" /\ f.ch = chan /\ UseTCP ->
               /\ srv' = [pc |-> "push", a |-> -1, b |-> f.pid] /\ UNCHANGED <<rcvSeq, offers, hbOffers>>
          [] f.svc = "TunnelReq" /\ f.ch = chan /\ ~UseTCP /\ f.seq = rcvSeq ->
               /\ rcvSeq' = (rcvSeq + 1) % M
               /\ srv' = [pc |-> "push", a |-> f.seq, b |-> f.pid] /\ UNCHANGED <<offers, hbOffers>>
          [] f.svc = "TunnelReq" /\ f.ch = chan /\ ~UseTCP /\ f.seq = (rcvSeq + M - 1) % M ->
               /\ srv' = [pc |-> "ackout", a |-> f.seq, b |-> -1]
               /\ UNCHANGED <<rcvSeq, offers, hbOffers>>
          [] f.svc = "TunnelRes" /\ f.ch = chan ->
               /\ offers' = offers \cup {[seq |-> f.seq, st |-> f.st, exp |-> now + R, ch |-> f.ch]}
               /\ UNCHANGED <<srv, rcvSeq, hbOffers>>
          [] f.svc = "ConnStateRes" /\ f.ch = chan ->
               /\ hbOffers' = hbOffers \cup {[st |-> f.st, exp |-> now + R]}
               /\ UNCHANGED <<srv, rcvSeq, offers>>
          [] f.svc = "DiscReq" /\ f.ch = chan ->
               /\ srv' = [pc |-> "discres", a |-> f.ch, b |-> -1]
               /\ UNCHANGED <<rcvSeq, offers, hbOffers>>
          [] f.svc = "DiscRes" /\ f.ch = chan ->
               /\ srv' = [pc |-> "exit", a |-> -1, b |-> -1]
               /\ UNCHANGED <<rcvSeq, offers, hbOffers>>
          [] OTHER -> UNCHANGED <<srv, rcvSeq, offers, hbOffers>>
  /\ nid' = nid + 1
  /\ act' = Act("take", 0)
  /\ UNCHANGED <<now, chan, sndSeq, conn, mu, muq, snd, hbNext, hb, failSig, ackOpen, inbOpen, done, once, closer,
                 starting, queued, reader, got, delivered,
                 sockOpen, c2g, dups, losses, injs, gwf, gw, bus, nsend, ntele, epoch>>

\* pushInbound(req.Payload), then on to the acknowledgement (UDP) or back to the loop (TCP)
ProcPush ==
  /\ srv.pc = "push"
  /\ Push(srv.b)
  /\ srv' = IF srv.a = -1 THEN [pc |-> "proc", a |-> -1, b |-> -1] ELSE [pc |-> "ackout", a |-> srv.a, b |-> -1]
  /\ act' = Act("internal", 0)
  /\ UNCHANGED <<now, chan, sndSeq, rcvSeq, conn, mu, muq, snd, offers, hbNext, hb, hbOffers, failSig, ackOpen, inbOpen, done, once,
                 closer, delivered, rxq, sockOpen, c2g, g2c, dups, losses, injs, gwf, gw, bus, nsend, ntele, nid, epoch>>

ProcAckOut ==
  /\ srv.pc = "ackout"
  /\ LET f == Frame("TunnelRes", chan, srv.a, 0, -1) IN Tx(f) \/ TxErr(f)     \* a failed write is logged, nothing else
  /\ srv' = [pc |-> "proc", a |-> -1, b |-> -1]
  /\ act' = Act("internal", 0)
  /\ UNCHANGED <<now, chan, sndSeq, rcvSeq, conn, mu, muq, snd, offers, hbNext, hb, hbOffers, failSig, ackOpen, inbOpen, done, once,
                 closer, starting, queued, reader, got, delivered, rxq, sockOpen, g2c, dups, losses, injs, gwf, gw, bus, nsend, ntele, nid, epoch>>

ProcDiscRes ==
  /\ srv.pc = "discres"
  /\ LET f == Frame("DiscRes", srv.a, -1, 0, -1) IN Tx(f) \/ TxErr(f)        \* "It doesn't matter."
  /\ srv' = [pc |-> "reconn", a |-> -1, b |-> -1]
  /\ act' = Act("internal", 0)
  /\ UNCHANGED <<now, chan, sndSeq, rcvSeq, conn, mu, muq, snd, offers, hbNext, hb, hbOffers, failSig, ackOpen, inbOpen, done, once,
                 closer, starting, queued, reader, got, delivered, rxq, sockOpen, g2c, dups, losses, injs, gwf, gw, bus, nsend, ntele, nid, epoch>>

\* process() returned errDisconnected / errHeartbeatFailed: serve calls requestConn
ServeReconnect ==
  /\ srv.pc = "reconn"
  /\ IF epoch < MaxEpoch /\ ~WFails(Frame("ConnReq", -1, epoch, -1, -1))
     THEN /\ Tx(Frame("ConnReq", -1, epoch, -1, -1))
          /\ srv' = [pc |-> "conn", a |-> -1, b |-> -1]
          /\ conn' = [next |-> now + R, dead |-> now + T]
          /\ UNCHANGED <<inbOpen, ackOpen, queued, starting, reader, offers>>
     ELSE IF epoch < MaxEpoch
     THEN \* the connect request's write fails: requestConn returns the error, serve gives up
          /\ TxErr(Frame("ConnReq", -1, epoch, -1, -1))
          /\ ServeExitTo([pc |-> "gone", a |-> -1, b |-> -1]) /\ UNCHANGED conn
     ELSE /\ ServeExitTo([pc |-> "gone", a |-> -1, b |-> -1]) /\ ev' = NoEv /\ UNCHANGED <<conn, c2g, wf>>
  /\ hb' = {} /\ hbOffers' = {} /\ failSig' = FALSE /\ hbNext' = -1    \* close(heartbeat): workers end
  /\ act' = Act("internal", 0)
  /\ UNCHANGED <<now, chan, sndSeq, rcvSeq, mu, muq, snd, done, once, closer, got, delivered, rxq, sockOpen,
                 g2c, dups, losses, injs, gwf, gw, bus, nsend, ntele, nid, epoch>>

\* process() returned nil or errInboundClosed, or done: serve returns
ServeExit ==
  /\ srv.pc = "exit" \/ (srv.pc = "proc" /\ done) \/ (srv.pc \in {"proc", "conn"} /\ ~sockOpen /\ Len(rxq) = 0)
  /\ ServeExitTo([pc |-> "gone", a |-> -1, b |-> -1])
  /\ hb' = {} /\ hbOffers' = {} /\ failSig' = FALSE /\ hbNext' = -1
  /\ ev' = NoEv /\ act' = Act("internal", 0)
  /\ UNCHANGED <<now, chan, sndSeq, rcvSeq, conn, mu, muq, snd, done, once, closer, got, delivered, rxq, sockOpen,
                 c2g, g2c, dups, losses, injs, gwf, gw, bus, nsend, ntele, nid, epoch>>

-----------------------------------------------------------------------------
(* heartbeat *)

ProcHbTick ==
  /\ EnableHB /\ srv.pc = "proc" /\ hbNext = now /\ ~done
  /\ hbNext' = now + H
  /\ nid' = nid + 1
  /\ LET f == Frame("ConnStateReq", chan, -1, 0, -1) IN
     \/ Tx(f) /\ hb' = hb \cup {[id |-> nid, ch |-> chan, next |-> now + R, dead |-> now + T, pc |-> "wait"]}
     \* the worker's first write fails: requestConnState returns the error, the heartbeat has failed
     \/ TxErr(f) /\ hb' = hb \cup {[id |-> nid, ch |-> chan, next |-> -1, dead |-> -1, pc |-> "fail"]}
  /\ act' = TAct(0)
  /\ UNCHANGED <<now, srv, chan, sndSeq, rcvSeq, conn, mu, muq, snd, offers, hbOffers, failSig, ackOpen, inbOpen, done, once, closer,
                 starting, queued, reader, got, delivered, rxq, sockOpen, g2c, dups, losses, injs, gwf, gw, bus, nsend, ntele, epoch>>

HbResend ==
  /\ \E w \in hb : /\ w.pc = "wait" /\ w.next = now
                   /\ LET f == Frame("ConnStateReq", w.ch, -1, 0, -1) IN
                      \/ Tx(f) /\ hb' = (hb \ {w}) \cup {[w EXCEPT !.next = now + R]}
                      \/ TxErr(f) /\ hb' = (hb \ {w}) \cup {[w EXCEPT !.pc = "fail"]}
  /\ act' = TAct(0)
  /\ UNCHANGED <<now, srv, chan, sndSeq, rcvSeq, conn, mu, muq, snd, offers, hbNext, hbOffers, failSig, ackOpen, inbOpen, done, once,
                 closer, starting, queued, reader, got, delivered, rxq, sockOpen, g2c, dups, losses, injs, gwf, gw, bus, nsend, ntele, nid, epoch>>

HbTimeout ==
  /\ \E w \in hb : /\ w.pc = "wait" /\ w.dead = now
                   /\ hb' = (hb \ {w}) \cup {[w EXCEPT !.pc = "fail"]}
  /\ ev' = NoEv /\ act' = TAct(0)
  /\ UNCHANGED <<now, srv, chan, sndSeq, rcvSeq, conn, mu, muq, snd, offers, hbNext, hbOffers, failSig, ackOpen, inbOpen, done, once,
                 closer, starting, queued, reader, got, delivered, rxq, sockOpen, c2g, g2c, dups, losses, injs, gwf, gw, bus, nsend, ntele, nid, epoch>>

HbTakeRes ==
  /\ \E w \in hb, o \in hbOffers :
       /\ w.pc = "wait"
       /\ hbOffers' = hbOffers \ {o}
       /\ hb' = IF o.st = 0 THEN hb \ {w} ELSE (hb \ {w}) \cup {[w EXCEPT !.pc = "fail"]}
  /\ ev' = NoEv /\ act' = Act(IF Cardinality(hbOffers) > 1 \/ Cardinality({w \in hb : w.pc = "wait"}) > 1 THEN "choice" ELSE "internal", 0)
  /\ UNCHANGED <<now, srv, chan, sndSeq, rcvSeq, conn, mu, muq, snd, offers, hbNext, failSig, ackOpen, inbOpen, done, once,
                 closer, starting, queued, reader, got, delivered, rxq, sockOpen, c2g, g2c, dups, losses, injs, gwf, gw, bus, nsend, ntele, nid, epoch>>

HbOfferExpire ==
  /\ \E o \in hbOffers : (o.exp = now \/ done) /\ hbOffers' = hbOffers \ {o}
  /\ ev' = NoEv /\ act' = TAct(0)
  /\ UNCHANGED <<now, srv, chan, sndSeq, rcvSeq, conn, mu, muq, snd, offers, hbNext, hb, failSig, ackOpen, inbOpen, done, once,
                 closer, starting, queued, reader, got, delivered, rxq, sockOpen, c2g, g2c, dups, losses, injs, gwf, gw, bus, nsend, ntele, nid, epoch>>

\* a failed worker offers on `timeout`; process() takes it and returns errHeartbeatFailed
ProcFailSignal ==
  /\ srv.pc = "proc" /\ ~done /\ \E w \in hb : w.pc = "fail"
  /\ srv' = [pc |-> "reconn", a |-> -1, b |-> -1]
  /\ ev' = NoEv /\ act' = Act("internal", 0)
  /\ UNCHANGED <<now, chan, sndSeq, rcvSeq, conn, mu, muq, snd, offers, hbNext, hb, hbOffers, failSig, ackOpen, inbOpen, done, once,
                 closer, starting, queued, reader, got, delivered, rxq, sockOpen, c2g, g2c, dups, losses, injs, gwf, gw, bus, nsend, ntele, nid, epoch>>

-----------------------------------------------------------------------------
(* inbound hand-off to the application *)

ParkReach ==
  /\ \E p \in starting :
       /\ starting' = starting \ {p}
       /\ IF reader = "waiting" THEN /\ got' = p /\ reader' = "got" /\ UNCHANGED queued
          ELSE /\ queued' = Append(queued, p) /\ UNCHANGED <<got, reader>>
  /\ ev' = NoEv /\ act' = Act("internal", 0)
  /\ UNCHANGED <<delivered, now, srv, chan, sndSeq, rcvSeq, conn, mu, muq, snd, offers, hbNext, hb, hbOffers, failSig, ackOpen, inbOpen, done, once,
                 closer, rxq, sockOpen, c2g, g2c, dups, losses, injs, gwf, gw, bus, nsend, ntele, nid, epoch>>

AppRecv ==
  /\ reader = "idle" /\ inbOpen /\ epoch > 0      \* Inbound() exists once NewTunnel has returned
  /\ IF Len(queued) > 0
     THEN /\ got' = Head(queued) /\ queued' = Tail(queued) /\ reader' = "got"
     ELSE /\ reader' = "waiting" /\ UNCHANGED <<got, queued>>
  /\ ev' = NoEv /\ act' = Act("recv", 0)
  /\ UNCHANGED <<delivered, now, srv, chan, sndSeq, rcvSeq, conn, mu, muq, snd, offers, hbNext, hb, hbOffers, failSig, ackOpen, inbOpen, done, once,
                 closer, starting, rxq, sockOpen, c2g, g2c, dups, losses, injs, gwf, gw, bus, nsend, ntele, nid, epoch>>

AppRecvRet ==
  /\ reader = "got"
  /\ delivered' = Append(delivered, got) /\ reader' = "idle" /\ got' = -1
  /\ ev' = SimEv("Recv", -1, got, "") /\ act' = Act("internal", 0)
  /\ UNCHANGED <<now, srv, chan, sndSeq, rcvSeq, conn, mu, muq, snd, offers, hbNext, hb, hbOffers, failSig, ackOpen, inbOpen, done, once,
                 closer, starting, queued, rxq, sockOpen, c2g, g2c, dups, losses, injs, gwf, gw, bus, nsend, ntele, nid, epoch>>

-----------------------------------------------------------------------------
(* Close: once.Do(requestDisc; close(done); wait.Wait(); sock.Close()) *)

CloseEnter ==
  /\ EnableClose /\ closer = "none" /\ epoch > 0
  /\ closer' = "disc" /\ once' = TRUE
  /\ ev' = SimEv("CloseCall", 1, -1, "") /\ act' = Act("close", 1)
  /\ UNCHANGED <<now, srv, chan, sndSeq, rcvSeq, conn, mu, muq, snd, offers, hbNext, hb, hbOffers, failSig, ackOpen, inbOpen, done,
                 starting, queued, reader, got, delivered, rxq, sockOpen, c2g, g2c, dups, losses, injs, gwf, gw, bus, nsend, ntele, nid, epoch>>

CloseDisc ==
  /\ closer = "disc"
  /\ LET f == Frame("DiscReq", chan, -1, 0, -1) IN Tx(f) \/ TxErr(f)     \* Close ignores requestDisc's result
  /\ closer' = "wait" /\ done' = TRUE
  /\ act' = Act("internal", 0)
  /\ UNCHANGED <<now, srv, chan, sndSeq, rcvSeq, conn, mu, muq, snd, offers, hbNext, hb, hbOffers, failSig, ackOpen, inbOpen, once,
                 starting, queued, reader, got, delivered, rxq, sockOpen, g2c, dups, losses, injs, gwf, gw, bus, nsend, ntele, nid, epoch>>

CloseWait ==
  /\ closer = "wait" /\ srv.pc = "gone"
  /\ closer' = "returned" /\ sockOpen' = FALSE
  /\ ev' = SimEv("CloseRet", 1, -1, "") /\ act' = Act("internal", 0)
  /\ UNCHANGED <<now, srv, chan, sndSeq, rcvSeq, conn, mu, muq, snd, offers, hbNext, hb, hbOffers, failSig, ackOpen, inbOpen, done, once,
                 starting, queued, reader, got, delivered, rxq, c2g, g2c, dups, losses, injs, gwf, gw, bus, nsend, ntele, nid, epoch>>

-----------------------------------------------------------------------------
(* environment: network, gateway, adversary, clock *)

G2C(f) == IF BagSize(g2c) < MaxNet THEN BagAdd(g2c, f) ELSE g2c

\* the gateway processes one datagram from the client
NetToGw ==
  /\ \E f \in DOMAIN c2g :
     /\ c2g' = LET b == BagDel(c2g, f)
                    acked == f.svc = "TunnelRes" /\ gw.conn /\ f.ch = gw.ch /\ gw.pend # -1 /\ f.seq = gw.seq /\ f.st = 0
                    accepted == f.svc = "TunnelReq" /\ gw.conn /\ f.ch = gw.ch /\ f.seq = gw.expect /\ ~UseTCP
                IN IF acked /\ ntele >= M THEN Purge(b, "TunnelRes", gw.ch, (gw.seq + 1) % M)
                   ELSE IF accepted /\ Len(bus) + 1 >= M THEN Purge(b, "TunnelReq", gw.ch, (gw.expect + 1) % M)
                   ELSE b
     /\ act' = ActF("c2g-deliver", f)
     /\ CASE f.svc = "ConnReq" /\ gw.conn /\ f.seq = gw.att ->
               \* repetition of the connect request that created this connection: same answer again
               /\ g2c' = G2C(Frame("ConnRes", gw.ch, -1, 0, -1))
               /\ ev' = NoEv /\ UNCHANGED <<gw, bus>>
          [] f.svc = "ConnReq" /\ ~(gw.conn /\ f.seq = gw.att) /\ f.seq >= gw.att ->
               /\ gw' = [conn |-> TRUE, ch |-> (gw.ch % 2) + 1, expect |-> 0, seq |-> 0, pend |-> -1, att |-> f.seq, rs |-> 0]
               /\ g2c' = G2C(Frame("ConnRes", (gw.ch % 2) + 1, -1, 0, -1))
               /\ ev' = SimEv("GwConnected", -1, -1, "") /\ UNCHANGED bus
          [] f.svc = "TunnelReq" /\ gw.conn /\ f.ch = gw.ch /\ f.seq = gw.expect /\ ~UseTCP ->
               /\ gw' = [gw EXCEPT !.expect = (@ + 1) % M]
               /\ bus' = Append(bus, f.pid)
               /\ g2c' = G2C(Frame("TunnelRes", f.ch, f.seq, 0, -1))
               /\ ev' = [SimEv("GwBus", -1, -1, "") EXCEPT !.a = f.pid]
          [] f.svc = "TunnelReq" /\ gw.conn /\ f.ch = gw.ch /\ f.seq = (gw.expect + M - 1) % M /\ ~UseTCP ->
               /\ g2c' = G2C(Frame("TunnelRes", f.ch, f.seq, 0, -1))
               /\ ev' = NoEv /\ UNCHANGED <<gw, bus>>
          [] f.svc = "TunnelReq" /\ gw.conn /\ f.ch = gw.ch /\ UseTCP ->
               /\ bus' = Append(bus, f.pid) /\ ev' = [SimEv("GwBus", -1, -1, "") EXCEPT !.a = f.pid] /\ UNCHANGED <<gw, g2c>>
          [] f.svc = "TunnelRes" /\ gw.conn /\ f.ch = gw.ch /\ gw.pend # -1 /\ f.seq = gw.seq /\ f.st = 0 ->
               /\ gw' = [gw EXCEPT !.seq = (@ + 1) % M, !.pend = -1]
               /\ g2c' = IF ntele >= M THEN Purge(g2c, "TunnelReq", gw.ch, (gw.seq + 1) % M) ELSE g2c
               /\ ev' = [SimEv("GwAcked", -1, -1, "") EXCEPT !.a = gw.pend] /\ UNCHANGED bus
          [] f.svc = "ConnStateReq" ->
               /\ g2c' = G2C(Frame("ConnStateRes", f.ch, -1, IF gw.conn /\ f.ch = gw.ch THEN 0 ELSE 33, -1))
               /\ ev' = NoEv /\ UNCHANGED <<gw, bus>>
          [] f.svc = "DiscReq" /\ gw.conn /\ f.ch = gw.ch ->
               /\ gw' = [gw EXCEPT !.conn = FALSE, !.pend = -1]
               /\ g2c' = G2C(Frame("DiscRes", f.ch, -1, 0, -1))
               /\ ev' = NoEv /\ UNCHANGED bus
          [] OTHER -> /\ ev' = NoEv /\ UNCHANGED <<gw, g2c, bus>>
  /\ UNCHANGED <<now, srv, chan, sndSeq, rcvSeq, conn, mu, muq, snd, offers, hbNext, hb, hbOffers, failSig, ackOpen, inbOpen, done, once,
                 closer, starting, queued, reader, got, delivered, rxq, sockOpen, dups, losses, injs, gwf, nsend, ntele, nid, epoch>>

\* the gateway misbehaves (budgeted): a heartbeat is answered with an error status, for a foreign
\* channel or not at all; a connect request is answered "busy" or refused
NetToGwFault ==
  /\ gwf < GwFaultBudget
  /\ \E f \in DOMAIN c2g :
     /\ f.svc \in {"ConnStateReq", "ConnReq"}
     /\ c2g' = BagDel(c2g, f)
     /\ gwf' = gwf + 1
     /\ \E mode \in {"silent", "err", "foreign"} :
          /\ act' = [ActF("c2g-fault", f) EXCEPT !.g = IF mode = "silent" THEN 0 ELSE IF mode = "err" THEN 1 ELSE 2]
          /\ g2c' = IF mode = "silent" THEN g2c
                    ELSE IF f.svc = "ConnStateReq"
                    THEN G2C(Frame("ConnStateRes", IF mode = "err" THEN f.ch ELSE f.ch + 7, -1, IF mode = "err" THEN 33 ELSE 0, -1))
                    ELSE G2C(Frame("ConnRes", 0, -1, IF mode = "err" THEN 34 ELSE 36, -1))
  /\ ev' = NoEv
  /\ UNCHANGED <<now, srv, chan, sndSeq, rcvSeq, conn, mu, muq, snd, offers, hbNext, hb, hbOffers, failSig, ackOpen, inbOpen, done, once,
                 closer, starting, queued, reader, got, delivered, rxq, sockOpen, dups, losses, injs, gw, bus, nsend, ntele, nid, epoch>>

NetToClient ==
  /\ \E f \in DOMAIN g2c :
     /\ g2c' = BagDel(g2c, f)
     /\ Len(rxq) < MaxRxq          \* the socket's receive queue is finite: further datagrams wait in the network
     /\ IF sockOpen THEN rxq' = Append(rxq, f) ELSE UNCHANGED rxq
     /\ ev' = FrEv("Rx", f) /\ act' = ActF("g2c-deliver", f)
  /\ UNCHANGED <<now, srv, chan, sndSeq, rcvSeq, conn, mu, muq, snd, offers, hbNext, hb, hbOffers, failSig, ackOpen, inbOpen, done, once,
                 closer, starting, queued, reader, got, delivered, sockOpen, c2g, dups, losses, injs, gwf, gw, bus, nsend, ntele, nid, epoch>>

NetLose ==
  /\ losses < LossBudget
  /\ \/ \E f \in DOMAIN c2g : c2g' = BagDel(c2g, f) /\ act' = ActF("c2g-lose", f) /\ UNCHANGED g2c
     \/ \E f \in DOMAIN g2c : g2c' = BagDel(g2c, f) /\ act' = ActF("g2c-lose", f) /\ UNCHANGED c2g
  /\ losses' = losses + 1 /\ ev' = NoEv
  /\ UNCHANGED <<now, srv, chan, sndSeq, rcvSeq, conn, mu, muq, snd, offers, hbNext, hb, hbOffers, failSig, ackOpen, inbOpen, done, once,
                 closer, starting, queued, reader, got, delivered, rxq, sockOpen, dups, injs, gwf, gw, bus, nsend, ntele, nid, epoch>>

NetDup ==
  /\ dups < DupBudget
  /\ \/ \E f \in DOMAIN c2g : BagSize(c2g) < MaxNet /\ c2g' = BagAdd(c2g, f) /\ act' = ActF("c2g-dup", f) /\ UNCHANGED g2c
     \/ \E f \in DOMAIN g2c : BagSize(g2c) < MaxNet /\ g2c' = BagAdd(g2c, f) /\ act' = ActF("g2c-dup", f) /\ UNCHANGED c2g
  /\ dups' = dups + 1 /\ ev' = NoEv
  /\ UNCHANGED <<now, srv, chan, sndSeq, rcvSeq, conn, mu, muq, snd, offers, hbNext, hb, hbOffers, failSig, ackOpen, inbOpen, done, once,
                 closer, starting, queued, reader, got, delivered, rxq, sockOpen, losses, injs, gwf, gw, bus, nsend, ntele, nid, epoch>>

\* the gateway forwards a bus telegram / repeats it
GwTelegram ==
  /\ EnableG2C /\ gw.conn /\ gw.pend = -1 /\ ntele < MaxTele /\ BagSize(g2c) < MaxNet
  /\ gw' = [gw EXCEPT !.pend = 200 + ntele, !.rs = 0]
  /\ ntele' = ntele + 1
  /\ g2c' = BagAdd(g2c, Frame("TunnelReq", gw.ch, IF UseTCP THEN 0 ELSE gw.seq, -1, 200 + ntele))
  /\ ev' = NoEv /\ act' = Act("gwtele", 200 + ntele)
  /\ UNCHANGED <<now, srv, chan, sndSeq, rcvSeq, conn, mu, muq, snd, offers, hbNext, hb, hbOffers, failSig, ackOpen, inbOpen, done, once,
                 closer, starting, queued, reader, got, delivered, rxq, sockOpen, c2g, dups, losses, injs, gwf, bus, nsend, nid, epoch>>

GwResend ==
  /\ EnableG2C /\ gw.conn /\ gw.pend # -1 /\ ~UseTCP /\ BagSize(g2c) < MaxNet
  /\ gw.rs < MaxGwResend        \* the gateway repeats a telegram a bounded number of times (then it may give up)
  /\ Frame("TunnelReq", gw.ch, gw.seq, -1, gw.pend) \notin DOMAIN g2c
  /\ g2c' = BagAdd(g2c, Frame("TunnelReq", gw.ch, gw.seq, -1, gw.pend))
  /\ gw' = [gw EXCEPT !.rs = @ + 1]
  /\ ev' = NoEv /\ act' = Act("gwresend", 0)
  /\ UNCHANGED <<now, srv, chan, sndSeq, rcvSeq, conn, mu, muq, snd, offers, hbNext, hb, hbOffers, failSig, ackOpen, inbOpen, done, once,
                 closer, starting, queued, reader, got, delivered, rxq, sockOpen, c2g, dups, losses, injs, gwf, bus, nsend, ntele, nid, epoch>>

GwGiveUp ==
  /\ EnableHB /\ gw.conn /\ epoch < MaxEpoch /\ BagSize(g2c) < MaxNet
  /\ gw' = [gw EXCEPT !.conn = FALSE, !.pend = -1]
  /\ g2c' = BagAdd(g2c, Frame("DiscReq", gw.ch, -1, 0, -1))
  /\ ev' = NoEv /\ act' = Act("gwgiveup", 0)
  /\ UNCHANGED <<now, srv, chan, sndSeq, rcvSeq, conn, mu, muq, snd, offers, hbNext, hb, hbOffers, failSig, ackOpen, inbOpen, done, once,
                 closer, starting, queued, reader, got, delivered, rxq, sockOpen, c2g, dups, losses, injs, gwf, bus, nsend, ntele, nid, epoch>>

\* adversarial acknowledgements: any channel / nearby sequence number / status
Inject ==
  /\ Adversary /\ epoch > 0 /\ Len(rxq) < 2 /\ injs < InjBudget /\ sockOpen
  /\ injs' = injs + 1
  /\ \/ \E c \in {chan, chan + 7}, d \in {M - 1, 0, 1}, s \in {0, 41} :
          LET f == Frame("TunnelRes", c, (sndSeq + d) % M, s, -1) IN
          /\ rxq' = Append(rxq, f) /\ ev' = FrEv("Rx", f)
          /\ act' = ActF("inject", Frame("TunnelRes", IF c = chan THEN 1 ELSE 0, IF d = M - 1 THEN -1 ELSE d, s, -1))
     \/ /\ AdvReq
        /\ \E c \in {chan, chan + 7}, d \in {M - 2, M - 1, 0, 1} :
          LET f == Frame("TunnelReq", c, (rcvSeq + d) % M, -1, 300 + injs) IN
          /\ rxq' = Append(rxq, f) /\ ev' = FrEv("Rx", f)
          /\ act' = ActF("inject", Frame("TunnelReq", IF c = chan THEN 1 ELSE 0, IF d >= M - 2 THEN d - M ELSE d, -1, 300 + injs))
  /\ UNCHANGED <<now, srv, chan, sndSeq, rcvSeq, conn, mu, muq, snd, offers, hbNext, hb, hbOffers, failSig, ackOpen, inbOpen, done, once,
                 closer, starting, queued, reader, got, delivered, sockOpen, c2g, g2c, dups, losses, gwf, gw, bus, nsend, ntele, nid, epoch>>

\* a transient local error is armed: the next socket write of a frame of this service type fails once
ArmWFail ==
  /\ wfn < WFailBudget /\ wf = "" /\ sockOpen /\ epoch > 0 /\ closer = "none"
  /\ \E svc \in {"TunnelReq", "TunnelRes", "ConnStateReq", "ConnReq", "DiscRes"} :
       /\ (svc = "TunnelReq" => MaxSend > 0) /\ (svc = "TunnelRes" => EnableG2C) /\ (svc \in {"ConnStateReq", "ConnReq", "DiscRes"} => EnableHB)
       /\ wf' = svc /\ act' = ActF("wfail", Frame(svc, -1, -1, -1, -1))
  /\ wfn' = wfn + 1 /\ ev' = NoEv
  /\ UNCHANGED <<now, srv, chan, sndSeq, rcvSeq, conn, mu, muq, snd, offers, hbNext, hb, hbOffers, failSig, ackOpen, inbOpen, done, once,
                 closer, starting, queued, reader, got, delivered, rxq, sockOpen, c2g, g2c, dups, losses, injs, gwf, gw, bus, nsend, ntele, nid, epoch>>

\* time passes only when no timer is due now
TimerDue ==
  \/ srv.pc = "conn" /\ (conn.next = now \/ conn.dead = now)
  \/ \E g \in Senders : snd[g].st = "waiting" /\ (snd[g].next = now \/ snd[g].dead = now)
  \/ \E o \in offers : o.exp = now
  \/ \E o \in hbOffers : o.exp = now
  \/ \E w \in hb : w.pc = "wait" /\ (w.next = now \/ w.dead = now)
  \/ srv.pc = "proc" /\ hbNext = now /\ ~done

\* Client goroutines run as soon as they can: virtual time advances only when every
\* goroutine of the client is blocked (exactly the semantics of the synctest bubble the
\* real client is driven in). Environment steps (network, gateway, application) are not urgent.
ClientCanStep ==
  \/ srv.pc \in {"push", "ackout", "discres", "reconn", "exit"}
  \/ srv.pc = "connlock" /\ mu = 0 /\ Len(muq) > 0 /\ Head(muq) = -1
  \/ srv.pc = "conn" /\ Len(rxq) > 0
  \/ srv.pc = "proc" /\ (Len(rxq) > 0 \/ done \/ \E w \in hb : w.pc = "fail")
  \/ srv.pc \in {"proc", "conn"} /\ ~sockOpen /\ Len(rxq) = 0
  \/ \E g \in Senders : (snd[g].st = "locking" /\ mu = 0 /\ Len(muq) > 0 /\ Head(muq) = g) \/ snd[g].st \in {"tcpret", "errret"}
                          \/ (snd[g].st = "waiting" /\ (offers # {} \/ ~ackOpen))
  \/ done /\ (offers # {} \/ hbOffers # {})
  \/ hbOffers # {} /\ \E w \in hb : w.pc = "wait"
  \/ starting # {}
  \/ reader = "got"
  \/ closer = "disc"
  \/ (closer = "wait" /\ srv.pc = "gone")

Tick ==
  /\ now < MaxNow /\ ~TimerDue /\ ~ClientCanStep
  /\ now' = now + 1
  /\ ev' = NoEv /\ act' = Act("tick", 1)
  /\ UNCHANGED <<srv, chan, sndSeq, rcvSeq, conn, mu, muq, snd, offers, hbNext, hb, hbOffers, failSig, ackOpen, inbOpen, done, once, closer,
                 starting, queued, reader, got, delivered, rxq, sockOpen, c2g, g2c, dups, losses, injs, gwf, gw, bus, nsend, ntele, nid, epoch>>

\* With Urgent the client's own steps (and its due timers) take strict priority over every environment
\* step -- the discipline of the virtual-time driver, which lets the client run until all of its goroutines
\* block after every environment step. The conformance configurations (CONF_*) use it so that a generated
\* behaviour is reproducible step by step; the property configurations leave the interleaving free.
EnvOK == ~Urgent \/ (~ClientCanStep /\ ~TimerDue)

\* the actions that write to the socket say themselves what becomes of `wf`; `wfn` changes in ArmWFail only
Next ==
  \/ /\ \/ ConnResend \/ ConnResendErr
        \/ \E g \in Senders : SendFirstTx(g) \/ SendResend(g)
        \/ ProcAckOut \/ ProcDiscRes \/ ServeReconnect \/ ProcHbTick \/ HbResend \/ CloseDisc
     /\ UNCHANGED wfn
  \/ /\ \/ ConnTimeout \/ ConnTake \/ ConnLock
        \/ \E g \in Senders : (EnvOK /\ AppSend(g)) \/ SendTcpReturn(g) \/ SendTimeout(g) \/ SendTakeAck(g) \/ SendAckClosed(g)
        \/ AckOfferExpire
        \/ ProcTake \/ ServeExit
        \/ HbTimeout \/ HbTakeRes \/ HbOfferExpire \/ ProcFailSignal
        \/ ProcPush \/ ParkReach \/ (EnvOK /\ AppRecv) \/ AppRecvRet
        \/ (EnvOK /\ CloseEnter) \/ CloseWait
        \/ (EnvOK /\ (NetToGw \/ NetToGwFault \/ NetToClient \/ NetLose \/ NetDup \/ GwTelegram \/ GwResend \/ GwGiveUp \/ Inject))
        \/ Tick
     /\ UNCHANGED <<wf, wfn>>
  \/ (EnvOK /\ ArmWFail)

Spec == Init /\ [][Next]_vars

-----------------------------------------------------------------------------
(* Properties stated directly on the specification (checked exhaustively). *)

TypeOK ==
  /\ mu \in {0, -1} \cup Senders
  /\ sndSeq \in 0..M-1 /\ rcvSeq \in 0..M-1

\* C03: the sequence mutex admits one request in flight
OneInFlight == Cardinality({g \in Senders : snd[g].st \in {"waiting", "tcpret"}}) <= 1
MutexHeld == \A g \in Senders : snd[g].st \in {"waiting", "tcpret"} => mu = g

\* C04: nothing is delivered twice to the application
NoDupDelivery == \A i, j \in 1..Len(delivered) : i # j => delivered[i] # delivered[j]

\* C05 (bus side): no telegram twice on the bus
BusNoDup == \A i, j \in 1..Len(bus) : i # j => bus[i] # bus[j]

\* C10: once Close has returned the serve goroutine is gone and both channels are closed
ClosedMeansClosed == closer = "returned" => (srv.pc = "gone" /\ ~inbOpen /\ ~ackOpen)
=============================================================================
