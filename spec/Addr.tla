------------------------------- MODULE Addr -------------------------------
(***************************************************************************)
(* Reference specification of KNX address text forms (C18), at token       *)
(* level: an address text is a separator-split list of components, each an *)
(* integer, "empty" or "junk" (the harness tokenises; this module owns the *)
(* meaning).  Group addresses: a/b/c with 5/3/8 bits, a/b with 5/11 bits,  *)
(* raw 1..65535, separator "/".  Individual addresses: a.b.c with 4/4/8    *)
(* bits, a.b with 8/8 bits, raw 1..65535, separator ".".  Zero is invalid. *)
(***************************************************************************)
EXTENDS Integers, Sequences

Reject == -1

\* comps: sequence of records [t |-> "int" | "empty" | "junk", v |-> Int]
AllInt(comps) == \A i \in 1..Len(comps) : comps[i].t = "int"
In(x, lo, hi) == x >= lo /\ x <= hi

ParseGroup(comps) ==
  IF ~AllInt(comps) THEN Reject
  ELSE IF Len(comps) = 3
       THEN LET a == comps[1].v b == comps[2].v c == comps[3].v IN
            IF In(a, 0, 31) /\ In(b, 0, 7) /\ In(c, 0, 255) /\ a + b + c > 0 THEN a * 2048 + b * 256 + c ELSE Reject
  ELSE IF Len(comps) = 2
       THEN LET a == comps[1].v b == comps[2].v IN
            IF In(a, 0, 31) /\ In(b, 0, 2047) /\ a + b > 0 THEN a * 2048 + b ELSE Reject
  ELSE IF Len(comps) = 1
       THEN IF In(comps[1].v, 1, 65535) THEN comps[1].v ELSE Reject
  ELSE Reject

ParseIndividual(comps) ==
  IF ~AllInt(comps) THEN Reject
  ELSE IF Len(comps) = 3
       THEN LET a == comps[1].v b == comps[2].v c == comps[3].v IN
            IF In(a, 0, 15) /\ In(b, 0, 15) /\ In(c, 0, 255) /\ a + b + c > 0 THEN a * 4096 + b * 256 + c ELSE Reject
  ELSE IF Len(comps) = 2
       THEN LET a == comps[1].v b == comps[2].v IN
            IF In(a, 0, 255) /\ In(b, 0, 255) /\ a + b > 0 THEN a * 256 + b ELSE Reject
  ELSE IF Len(comps) = 1
       THEN IF In(comps[1].v, 1, 65535) THEN comps[1].v ELSE Reject
  ELSE Reject

\* Formatting: the three-level form
FormatGroup(x) == <<x \div 2048, ((x \div 256) % 8), (x % 256)>>
FormatIndividual(x) == <<x \div 4096, ((x \div 256) % 16), (x % 256)>>

\* Component constructors: each component lands in its bit field, bits outside its width are ignored
Group3(a, b, c) == ((a % 32)) * 2048 + ((b % 8)) * 256 + (c % 256)
Group2(a, b) == ((a % 32)) * 2048 + (b % 2048)
Individual3(a, b, c) == ((a % 16)) * 4096 + ((b % 16)) * 256 + (c % 256)
Individual2(a, b) == ((a % 256)) * 256 + (b % 256)

Ints(s) == [i \in 1..Len(s) |-> [t |-> "int", v |-> s[i]]]

\* theorems checked by TLC on this module (MC_Codec): every non-zero address survives format + parse
RoundTripAll ==
  /\ \A x \in 1..65535 : ParseGroup(Ints(FormatGroup(x))) = x
  /\ \A x \in 1..65535 : ParseIndividual(Ints(FormatIndividual(x))) = x
=============================================================================
