\* generated by spec/mkcfg.py
SPECIFICATION Spec
CONSTANTS
  Senders = {1}
  MaxSend = 4
  MaxTele = 3
  M = 4
  R = 2
  T = 5
  H = 7
  MaxNow = 30
  MaxNet = 3
  MaxRxq = 4
  MaxGwResend = 3
  DupBudget = 2
  LossBudget = 3
  InjBudget = 0
  AdvReq = FALSE
  GwFaultBudget = 0
  MaxEpoch = 1
  EnableHB = FALSE
  EnableClose = FALSE
  EnableG2C = TRUE
  Adversary = FALSE
  UseTCP = FALSE
  WFailBudget = 2
  ChanUnderLock = TRUE
  AckChanCheck = TRUE
  Urgent = TRUE
INVARIANTS TypeOK
CHECK_DEADLOCK FALSE
