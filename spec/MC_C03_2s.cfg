\* generated by spec/mkcfg.py
SPECIFICATION Spec
CONSTANTS
  Senders = {1, 2}
  MaxSend = 2
  MaxTele = 0
  M = 4
  R = 2
  T = 4
  H = 100
  MaxNow = 5
  MaxNet = 2
  MaxRxq = 2
  MaxGwResend = 1
  DupBudget = 0
  LossBudget = 1
  InjBudget = 0
  AdvReq = FALSE
  GwFaultBudget = 0
  MaxEpoch = 1
  EnableHB = FALSE
  EnableClose = FALSE
  EnableG2C = FALSE
  Adversary = FALSE
  UseTCP = FALSE
  WFailBudget = 0
  ChanUnderLock = TRUE
  AckChanCheck = TRUE
  Urgent = FALSE
INVARIANTS TypeOK OneInFlight MutexHeld NoDupDelivery ClosedMeansClosed BusNoDup
VIEW view
CHECK_DEADLOCK FALSE
