\* generated by spec/mkcfg.py
SPECIFICATION MCSpec
CONSTANTS
  Senders = {1, 2}
  MaxSend = 4
  MaxTele = 3
  M = 4
  R = 2
  T = 5
  H = 7
  MaxNow = 30
  MaxNet = 3
  MaxRxq = 4
  MaxGwResend = 3
  DupBudget = 2
  LossBudget = 3
  InjBudget = 1
  AdvReq = FALSE
  GwFaultBudget = 1
  MaxEpoch = 3
  EnableHB = TRUE
  EnableClose = TRUE
  EnableG2C = TRUE
  Adversary = TRUE
  UseTCP = FALSE
  WFailBudget = 0
  ChanUnderLock = TRUE
  AckChanCheck = TRUE
  Urgent = FALSE
INVARIANTS TypeOK ObsQuiet ClosedMeansClosed
CHECK_DEADLOCK FALSE
