------------------------------- MODULE Group -------------------------------
(***************************************************************************)
(* Reference specification of the group-communication layer (C12): how a   *)
(* group event (command read/response/write, source, destination, payload) *)
(* maps onto an L_Data frame and which inbound cEMI messages surface as    *)
(* group events.                                                           *)
(***************************************************************************)
EXTENDS Cemi

\* the fields the property prescribes for an outbound frame of event ev = [cmd, src, dst, data]
OutboundOK(ev, f, wantCode) ==
  /\ f.code = wantCode
  /\ f.kind = "app" /\ f.cmd = ev.cmd
  /\ f.src = ev.src /\ f.dst = ev.dst
  /\ C2Group(f.c2) = 1 /\ C2Hops(f.c2) = 6
  /\ C1Prio(f.c1) = 3                                  \* low priority
  /\ (C1Std(f.c1) = 1) = (Len(ev.data) <= 15)          \* standard frame iff at most 15 payload bytes
  /\ f.data = Canon([f EXCEPT !.data = ev.data]).data  \* the payload, as the wire format carries it

\* inbound: which messages become events
IsEvent(m) == m.ck = "ldata" /\ m.code = LDataInd /\ C2Group(m.c2) = 1 /\ m.kind = "app" /\ m.cmd < 3
EventOf(m) == [cmd |-> m.cmd, src |-> m.src, dst |-> m.dst, data |-> m.data]

\* what arrives at another client when ev is sent: empty payload -> one zero byte, first byte mod 64
Normalise(ev) == [ev EXCEPT !.data = IF Len(ev.data) = 0 THEN <<0>> ELSE [i \in 1..Len(ev.data) |-> IF i = 1 THEN (ev.data[1] % 64) ELSE ev.data[i]]]
=============================================================================
