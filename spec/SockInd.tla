------------------------------ MODULE SockInd ------------------------------
(* Typed restatement of Sock.tla for Apalache: the same actions, with an INDUCTIVE invariant that implies
   InOrderOnce and NoOverread for EVERY stream of up to MaxFrames frames of 6..MaxLen bytes and every segmentation
   (Sock.tla is checked by TLC for two concrete streams only). *)
EXTENDS Integers, Sequences, Apalache

CONSTANTS
  \* @type: Seq({len: Int, wf: Bool, hdr: Bool});
  Frames,
  \* @type: Int;
  MaxSeg

VARIABLES
  \* @type: Int;
  sentUpTo,
  \* @type: Int;
  rd,
  \* @type: Str;
  pc,
  \* @type: Int;
  cur,
  \* @type: Seq(Int);
  delivered,
  \* @type: Bool;
  peerClosed,
  \* @type: Bool;
  localClosed,
  \* @type: Bool;
  inbOpen

MaxFrames == 6
MaxLen == 64

\* @type: (Int, {len: Int, wf: Bool, hdr: Bool}) => Int;
AddLen(acc, f) == acc + f.len
Total == ApaFoldSeqLeft(AddLen, 0, Frames)
\* bytes before frame i
Start(i) ==
  LET \* @type: (Int, Int) => Int;
      Add(acc, j) == IF j < i /\ j <= Len(Frames) THEN acc + Frames[j].len ELSE acc
  IN ApaFoldSeqLeft(Add, 0, MkSeq(MaxFrames, (* @type: Int => Int; *) LAMBDA j : j))

ConstInit ==
  /\ MaxSeg \in 1..400
  /\ Frames \in Gen(MaxFrames)
  /\ Len(Frames) <= MaxFrames
  /\ \A i \in DOMAIN Frames : Frames[i].len \in 1..MaxLen

Init == sentUpTo = 0 /\ rd = 0 /\ pc = "peek" /\ cur = 1 /\ delivered = << >> /\ peerClosed = FALSE /\ localClosed = FALSE /\ inbOpen = TRUE

Segment ==
  /\ ~peerClosed /\ sentUpTo < Total
  /\ \E n \in 1..400 : n <= MaxSeg /\ sentUpTo + n <= Total /\ sentUpTo' = sentUpTo + n
  /\ UNCHANGED <<rd, pc, cur, delivered, peerClosed, localClosed, inbOpen>>
PeerClose == ~peerClosed /\ sentUpTo = Total /\ peerClosed' = TRUE /\ UNCHANGED <<sentUpTo, rd, pc, cur, delivered, localClosed, inbOpen>>
LocalClose == ~localClosed /\ localClosed' = TRUE /\ UNCHANGED <<sentUpTo, rd, pc, cur, delivered, peerClosed, inbOpen>>
Peek ==
  /\ pc = "peek" /\ cur <= Len(Frames) /\ ~localClosed /\ sentUpTo - rd >= 6
  /\ IF Frames[cur].hdr /\ Frames[cur].len >= 6 THEN pc' = "body" /\ UNCHANGED inbOpen
     ELSE pc' = "done" /\ inbOpen' = FALSE
  /\ UNCHANGED <<sentUpTo, rd, cur, delivered, peerClosed, localClosed>>
Body ==
  /\ pc = "body" /\ ~localClosed /\ sentUpTo - rd >= Frames[cur].len
  /\ rd' = rd + Frames[cur].len
  /\ delivered' = IF Frames[cur].wf THEN Append(delivered, cur) ELSE delivered
  /\ cur' = cur + 1 /\ pc' = "peek"
  /\ UNCHANGED <<sentUpTo, peerClosed, localClosed, inbOpen>>
ReadError ==
  /\ pc \in {"peek", "body"}
  /\ \/ localClosed
     \/ (peerClosed /\ sentUpTo = Total /\ (IF pc = "peek" THEN sentUpTo - rd < 6 ELSE sentUpTo - rd < Frames[cur].len))
  /\ pc' = "done" /\ inbOpen' = FALSE
  /\ UNCHANGED <<sentUpTo, rd, cur, delivered, peerClosed, localClosed>>
Next == Segment \/ PeerClose \/ LocalClose \/ Peek \/ Body \/ ReadError

\* the well-formed frames among the first k, in order
Idx == MkSeq(MaxFrames, (* @type: Int => Int; *) LAMBDA i : i)
\* @type: Int => Seq(Int);
WellFormedPrefix(k) ==
  LET \* @type: (Seq(Int), Int) => Seq(Int);
      Sel(acc, i) == IF i <= k /\ i <= Len(Frames) /\ Frames[i].wf THEN Append(acc, i) ELSE acc
  IN ApaFoldSeqLeft(Sel, << >>, Idx)

IndInv ==
  /\ pc \in {"peek", "body", "done"}
  /\ cur \in 1..(Len(Frames) + 1)
  /\ rd = Start(cur)                              \* the reader stands exactly at a frame boundary
  /\ 0 <= rd /\ rd <= sentUpTo /\ sentUpTo <= Total   \* NoOverread
  /\ delivered = WellFormedPrefix(cur - 1)        \* InOrderOnce, in its strongest form
  /\ (pc = "body" => (cur <= Len(Frames) /\ Frames[cur].hdr /\ Frames[cur].len >= 6))
  /\ (peerClosed => sentUpTo = Total)
  /\ (~inbOpen => pc = "done")

IndInit ==
  /\ sentUpTo \in 0..(MaxFrames * MaxLen) /\ rd \in 0..(MaxFrames * MaxLen)
  /\ pc \in {"peek", "body", "done"} /\ cur \in 1..(MaxFrames + 1)
  /\ delivered = WellFormedPrefix(cur - 1)
  /\ peerClosed \in BOOLEAN /\ localClosed \in BOOLEAN /\ inbOpen \in BOOLEAN
  /\ IndInv
InOrderOnce == \E k \in 0..MaxFrames : k <= Len(Frames) /\ delivered = WellFormedPrefix(k)
=============================================================================
