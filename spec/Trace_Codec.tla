---------------------------- MODULE Trace_Codec ----------------------------
(* Evaluates the codec properties on raw input/output records logged from the real      *)
(* Pack / Unpack functions (harness/codec).  The reference specifications Cemi, Knxnet, *)
(* Addr, Dpt own the meaning; this module only dispatches on the record kind.           *)
EXTENDS Knxnet, Addr, Group, Json, IOUtils, TLC, FiniteSets, SequencesExt

Recs == ndJsonDeserialize(IOEnv.TRACE)

\* ---- C11 / C15: L_Data layout ---------------------------------------------------------
JLData(r) ==
  LET ref == EncLData(r.f)
      encOk == r.panic = 0 /\ r.gb = ref
      decOk == r.gok = 1 /\ r.gd = Canon(r.f) /\ r.gn = Len(r.gb)
  IN (IF encOk THEN {} ELSE {"C11.EncLayout"})
     \cup (IF ~encOk \/ decOk THEN {} ELSE {"C11.DecLayout"})
     \cup (IF r.panic = 0 /\ r.size = Len(ref) THEN {} ELSE {"C15.SizeExact"})

JHelper(r) ==
  LET ok == CASE r.fn = "Hops" -> r.y = RefHops(r.x)
              [] r.fn = "Control2Hops" -> r.y = RefControl2Hops(r.x)
              [] r.fn = "HopsOfControl2Hops" -> r.y = Min2(r.x, 7)
              [] r.fn = "IsGroupAddr" -> (r.y = 1) = RefIsGroupAddr(r.x)
              [] r.fn = "Control1Prio" -> r.y = RefControl1Prio(r.x)
              [] r.fn = "IsGroupCommand" -> (r.y = 1) = RefIsGroupCommand(r.x)
              [] OTHER -> TRUE
  IN IF ok THEN {} ELSE {"C11.Helpers"}

\* ---- C18: address text forms --------------------------------------------------------------
\* r.op: "parse" (kind, comps, ok, v) | "format" (kind, x, comps) | "ctor" (fn, a, b, c, v)
JAddr(r) ==
  CASE r.op = "parse" ->
         LET want == IF r.kind = "group" THEN ParseGroup(r.comps) ELSE ParseIndividual(r.comps)
             wellSep == r.sepok = 1
             exp == IF wellSep THEN want ELSE Reject
         IN IF (exp = Reject /\ r.ok = 0) \/ (exp # Reject /\ r.ok = 1 /\ r.v = exp) THEN {} ELSE {"C18.AcceptExactly"}
    [] r.op = "format" ->
         LET comps == IF r.kind = "group" THEN FormatGroup(r.x) ELSE FormatIndividual(r.x)
             back == IF r.kind = "group" THEN ParseGroup(r.comps) ELSE ParseIndividual(r.comps)
         IN (IF r.comps = Ints(comps) THEN {} ELSE {"C18.Format"})
            \cup (IF back = r.x /\ r.ok = 1 /\ r.v = r.x THEN {} ELSE {"C18.RoundTrip"})
    [] r.op = "ctor" ->
         LET want == CASE r.fn = "Group3" -> Group3(r.a, r.b, r.c)
                       [] r.fn = "Group2" -> Group2(r.a, r.b)
                       [] r.fn = "Individual3" -> Individual3(r.a, r.b, r.c)
                       [] r.fn = "Individual2" -> Individual2(r.a, r.b)
         IN IF r.v = want THEN {} ELSE {"C18.Constructors"}
    [] OTHER -> {}

\* ---- C02 / C15: KNXnet/IP services ------------------------------------------------------
\* canonical decode of Enc(v): the documented wire effects on the cEMI part
CanonCemi(c) ==
  IF c.ck = "ldata"
  THEN LET k == Canon(c) IN [c EXCEPT !.info = k.info, !.seqn = k.seqn, !.cmd = k.cmd, !.data = k.data]
  ELSE c
CanonV(v) == [v EXCEPT !.cemi = CanonCemi(v.cemi)]

JSvc(r) ==
  LET ref == Enc(r.v)
      packed == r.panic = 0 /\ Len(r.gb) > 0
      \* C02: same service type, same message code, equal fields; the decoder accepts the encoding
      rt == packed /\ r.gok = 1 /\ r.gd = CanonV(r.v)
      stable == ~(packed /\ r.gok = 1) \/ (r.g2ok = 1 /\ r.gd2 = r.gd)
      \* C15
      total == IF Len(r.gb) >= 6 THEN r.gb[5] * 256 + r.gb[6] ELSE -1
  IN (IF rt THEN {} ELSE {"C02.RoundTrip"})
     \cup (IF stable THEN {} ELSE {"C02.Stable"})
     \cup (IF r.panic = 0 THEN {} ELSE {"C15.NoPanic"})
     \cup (IF r.panic = 1 \/ r.guard = 1 THEN {} ELSE {"C15.GuardIntact"})
     \cup (IF r.panic = 1 \/ (r.ff = r.gb /\ r.rnd = r.gb) THEN {} ELSE {"C15.Deterministic"})
     \cup (IF r.panic = 1 \/ r.size = Len(ref) THEN {} ELSE {"C15.SizeExact"})
     \cup (IF r.panic = 1 \/ total = Len(r.gb) THEN {} ELSE {"C15.HeaderLen"})
     \* (a device name that is not representable in ISO 8859-1 has no prescribed encoding: the
     \*  field may be left empty, neighbours intact)
     \cup (IF r.panic = 1 \/ r.gb = ref
              \/ ((\E i \in 1..Len(r.v.dev.name) : r.v.dev.name[i] > 255) /\ r.gb = Enc([r.v EXCEPT !.dev.name = << >>]))
           THEN {} ELSE {"C15.Truncation"})

\* ---- C01: decoding untrusted bytes ----------------------------------------------------------
JDecOne(d, len) ==
  (IF d.panic = 0 THEN {} ELSE {"C01.NoPanic"})
  \cup (IF d.hang = 0 THEN {} ELSE {"C01.Terminates"})
  \cup (IF d.ok = 0 \/ d.n <= len THEN {} ELSE {"C01.ConsumedWithin"})
JDec(r) ==
  JDecOne(r.exact, r.len) \cup JDecOne(r.exta, r.len) \cup JDecOne(r.extv, r.len)
  \* the outcome is a function of the input bytes alone
  \cup (IF r.exact = r.exta /\ r.exact = r.extv THEN {} ELSE {"C01.InputOnly"})

\* ---- C12: group events <-> L_Data frames --------------------------------------------------------
JGroup(r) ==
  CASE r.op = "out" ->
         LET want == IF r.via = "router" THEN LDataInd ELSE LDataReq
             wsvc == IF r.via = "router" THEN RoutingInd ELSE TunnelReq
         IN IF r.err = 0 /\ r.frames = 1 /\ r.svc = wsvc /\ r.f.ck = "ldata" /\ OutboundOK(r.ev, r.f, want) THEN {} ELSE {"C12.Outbound"}
    [] r.op = "in" ->
         IF IsEvent(r.msg) THEN (IF r.got = 1 /\ r.gev = EventOf(r.msg) THEN {} ELSE {"C12.InboundIff"})
         ELSE (IF r.got = 0 THEN {} ELSE {"C12.InboundIff"})
    [] r.op = "e2e" -> IF r.got = 1 /\ r.gev = Normalise(r.ev) THEN {} ELSE {"C12.EndToEnd"}
    [] r.op = "close" -> IF r.got = 1 THEN {} ELSE {"C12.CloseFollows"}
    [] OTHER -> {}

Judge(r) ==
  CASE r.k = "ldata" -> JLData(r)
    [] r.k = "helper" -> JHelper(r)
    [] r.k = "addr" -> JAddr(r)
    [] r.k = "svc" -> JSvc(r)
    [] r.k = "dec" -> JDec(r)
    [] r.k = "group" -> JGroup(r)
    [] OTHER -> {}

VARIABLE l
TInit == l = 1
TNext ==
  /\ l <= Len(Recs)
  /\ LET bad == Judge(Recs[l]) IN bad # {} => PrintT(<<"BAD", 0, l, l, SetToSeq(bad)>>)
  /\ (l = Len(Recs) => PrintT(<<"DONE", l>>))
  /\ l' = l + 1
TSpec == TInit /\ [][TNext]_l
=============================================================================
