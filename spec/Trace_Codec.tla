---------------------------- MODULE Trace_Codec ----------------------------
(* Evaluates the codec properties on raw input/output records logged from the real      *)
(* Pack / Unpack functions (harness/codec).  The reference specifications Cemi, Knxnet, *)
(* Addr, Dpt own the meaning; this module only dispatches on the record kind.           *)
EXTENDS Knxnet, Addr, Json, IOUtils, TLC, FiniteSets, SequencesExt

Recs == ndJsonDeserialize(IOEnv.TRACE)

\* ---- C11 / C15: L_Data layout ---------------------------------------------------------
JLData(r) ==
  LET ref == EncLData(r.f)
      encOk == r.panic = 0 /\ r.gb = ref
      decOk == r.gok = 1 /\ r.gd = Canon(r.f) /\ r.gn = Len(r.gb)
  IN (IF encOk THEN {} ELSE {"C11.EncLayout"})
     \cup (IF ~encOk \/ decOk THEN {} ELSE {"C11.DecLayout"})
     \cup (IF r.panic = 0 /\ r.size = Len(ref) THEN {} ELSE {"C15.SizeExact"})

JHelper(r) ==
  LET ok == CASE r.fn = "Hops" -> r.y = RefHops(r.x)
              [] r.fn = "Control2Hops" -> r.y = RefControl2Hops(r.x)
              [] r.fn = "HopsOfControl2Hops" -> r.y = Min2(r.x, 7)
              [] r.fn = "IsGroupAddr" -> (r.y = 1) = RefIsGroupAddr(r.x)
              [] r.fn = "Control1Prio" -> r.y = RefControl1Prio(r.x)
              [] r.fn = "IsGroupCommand" -> (r.y = 1) = RefIsGroupCommand(r.x)
              [] OTHER -> TRUE
  IN IF ok THEN {} ELSE {"C11.Helpers"}

\* ---- C18: address text forms --------------------------------------------------------------
\* r.op: "parse" (kind, comps, ok, v) | "format" (kind, x, comps) | "ctor" (fn, a, b, c, v)
JAddr(r) ==
  CASE r.op = "parse" ->
         LET want == IF r.kind = "group" THEN ParseGroup(r.comps) ELSE ParseIndividual(r.comps)
             wellSep == r.sepok = 1
             exp == IF wellSep THEN want ELSE Reject
         IN IF (exp = Reject /\ r.ok = 0) \/ (exp # Reject /\ r.ok = 1 /\ r.v = exp) THEN {} ELSE {"C18.AcceptExactly"}
    [] r.op = "format" ->
         LET comps == IF r.kind = "group" THEN FormatGroup(r.x) ELSE FormatIndividual(r.x)
             back == IF r.kind = "group" THEN ParseGroup(r.comps) ELSE ParseIndividual(r.comps)
         IN (IF r.comps = Ints(comps) THEN {} ELSE {"C18.Format"})
            \cup (IF back = r.x /\ r.ok = 1 /\ r.v = r.x THEN {} ELSE {"C18.RoundTrip"})
    [] r.op = "ctor" ->
         LET want == CASE r.fn = "Group3" -> Group3(r.a, r.b, r.c)
                       [] r.fn = "Group2" -> Group2(r.a, r.b)
                       [] r.fn = "Individual3" -> Individual3(r.a, r.b, r.c)
                       [] r.fn = "Individual2" -> Individual2(r.a, r.b)
         IN IF r.v = want THEN {} ELSE {"C18.Constructors"}
    [] OTHER -> {}

Judge(r) ==
  CASE r.k = "ldata" -> JLData(r)
    [] r.k = "helper" -> JHelper(r)
    [] r.k = "addr" -> JAddr(r)
    [] OTHER -> {}

VARIABLE l
TInit == l = 1
TNext ==
  /\ l <= Len(Recs)
  /\ LET bad == Judge(Recs[l]) IN bad # {} => PrintT(<<"BAD", 0, l, l, SetToSeq(bad)>>)
  /\ (l = Len(Recs) => PrintT(<<"DONE", l>>))
  /\ l' = l + 1
TSpec == TInit /\ [][TNext]_l
=============================================================================
