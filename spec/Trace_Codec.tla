---------------------------- MODULE Trace_Codec ----------------------------
(* Evaluates the codec properties on raw input/output records logged from the real      *)
(* Pack / Unpack functions (harness/codec).  The reference specifications Cemi, Knxnet, *)
(* Addr, Dpt own the meaning; this module only dispatches on the record kind.           *)
EXTENDS Knxnet, Addr, Group, Dpt, Registry, Json, IOUtils, TLC, FiniteSets, SequencesExt

Recs == ndJsonDeserialize(IOEnv.TRACE)

\* ---- C11 / C15: L_Data layout ---------------------------------------------------------
JLData(r) ==
  LET ref == EncLData(r.f)
      encOk == r.panic = 0 /\ r.gb = ref
      \* (gdu: the same bytes decoded into a receiver that held an earlier frame - a reused value ends up as a fresh one)
      decOk == r.gok = 1 /\ r.gd = Canon(r.f) /\ r.gdu = r.gd /\ r.gn = Len(r.gb)
  IN (IF encOk THEN {} ELSE {"C11.EncLayout"})
     \cup (IF ~encOk \/ decOk THEN {} ELSE {"C11.DecLayout"})
     \cup (IF r.panic = 0 /\ r.size = Len(ref) THEN {} ELSE {"C15.SizeExact"})

JHelper(r) ==
  LET ok == CASE r.fn = "Hops" -> r.y = RefHops(r.x)
              [] r.fn = "Control2Hops" -> r.y = RefControl2Hops(r.x)
              [] r.fn = "HopsOfControl2Hops" -> r.y = Min2(r.x, 7)
              [] r.fn = "IsGroupAddr" -> (r.y = 1) = RefIsGroupAddr(r.x)
              [] r.fn = "Control1Prio" -> r.y = RefControl1Prio(r.x)
              [] r.fn = "IsGroupCommand" -> (r.y = 1) = RefIsGroupCommand(r.x)
              [] OTHER -> TRUE
  IN IF ok THEN {} ELSE {"C11.Helpers"}

\* ---- C18: address text forms --------------------------------------------------------------
\* r.op: "parse" (kind, comps, ok, v) | "format" (kind, x, comps) | "ctor" (fn, a, b, c, v)
JAddr(r) ==
  CASE r.op = "parse" ->
         LET want == IF r.kind = "group" THEN ParseGroup(r.comps) ELSE ParseIndividual(r.comps)
             wellSep == r.sepok = 1
             exp == IF wellSep THEN want ELSE Reject
         IN IF (exp = Reject /\ r.ok = 0) \/ (exp # Reject /\ r.ok = 1 /\ r.v = exp) THEN {} ELSE {"C18.AcceptExactly"}
    [] r.op = "format" ->
         LET comps == IF r.kind = "group" THEN FormatGroup(r.x) ELSE FormatIndividual(r.x)
             back == IF r.kind = "group" THEN ParseGroup(r.comps) ELSE ParseIndividual(r.comps)
         IN (IF r.comps = Ints(comps) THEN {} ELSE {"C18.Format"})
            \cup (IF back = r.x /\ r.ok = 1 /\ r.v = r.x THEN {} ELSE {"C18.RoundTrip"})
    [] r.op = "ctor" ->
         LET want == CASE r.fn = "Group3" -> Group3(r.a, r.b, r.c)
                       [] r.fn = "Group2" -> Group2(r.a, r.b)
                       [] r.fn = "Individual3" -> Individual3(r.a, r.b, r.c)
                       [] r.fn = "Individual2" -> Individual2(r.a, r.b)
         IN IF r.v = want THEN {} ELSE {"C18.Constructors"}
    [] OTHER -> {}

\* ---- C02 / C15: KNXnet/IP services ------------------------------------------------------
\* canonical decode of Enc(v): the documented wire effects on the cEMI part
CanonCemi(c) ==
  IF c.ck = "ldata"
  THEN LET k == Canon(c) IN [c EXCEPT !.info = k.info, !.seqn = k.seqn, !.cmd = k.cmd, !.data = k.data]
  ELSE c
CanonV(v) == [v EXCEPT !.cemi = CanonCemi(v.cemi)]

JSvc(r) ==
  LET ref == Enc(r.v)
      packed == r.panic = 0 /\ Len(r.gb) > 0
      \* C02: same service type, same message code, equal fields; the decoder accepts the encoding
      rt == packed /\ r.gok = 1 /\ r.gd = CanonV(r.v)
      stable == ~(packed /\ r.gok = 1) \/ (r.g2ok = 1 /\ r.gd2 = r.gd)
      \* C15
      total == IF Len(r.gb) >= 6 THEN r.gb[5] * 256 + r.gb[6] ELSE -1
  IN (IF rt THEN {} ELSE {"C02.RoundTrip"})
     \cup (IF stable THEN {} ELSE {"C02.Stable"})
     \cup (IF r.panic = 0 THEN {} ELSE {"C15.NoPanic"})
     \cup (IF r.panic = 1 \/ r.guard = 1 THEN {} ELSE {"C15.GuardIntact"})
     \cup (IF r.panic = 1 \/ (r.ff = r.gb /\ r.rnd = r.gb) THEN {} ELSE {"C15.Deterministic"})
     \* packing into a longer slice writes the same frame (the header's total length is the frame's, not the buffer's)
     \cup (IF r.panic = 1 \/ r.big = r.gb THEN {} ELSE {"C15.HeaderLen"})
     \cup (IF r.panic = 1 \/ r.size = Len(ref) THEN {} ELSE {"C15.SizeExact"})
     \cup (IF r.panic = 1 \/ total = Len(r.gb) THEN {} ELSE {"C15.HeaderLen"})
     \* (a device name that is not representable in ISO 8859-1 has no prescribed encoding: the
     \*  field may be left empty, neighbours intact)
     \cup (IF r.panic = 1 \/ r.gb = ref
              \/ ((\E i \in 1..Len(r.v.dev.name) : r.v.dev.name[i] > 255) /\ r.gb = Enc([r.v EXCEPT !.dev.name = << >>]))
           THEN {} ELSE {"C15.Truncation"})

\* ---- C01: decoding untrusted bytes ----------------------------------------------------------
JDecOne(d, len) ==
  (IF d.panic = 0 THEN {} ELSE {"C01.NoPanic"})
  \cup (IF d.hang = 0 THEN {} ELSE {"C01.Terminates"})
  \cup (IF d.ok = 0 \/ d.n <= len THEN {} ELSE {"C01.ConsumedWithin"})
JDec(r) ==
  JDecOne(r.exact, r.len) \cup JDecOne(r.exta, r.len) \cup JDecOne(r.extv, r.len)
  \* the outcome is a function of the input bytes alone
  \cup (IF r.exact = r.exta /\ r.exact = r.extv THEN {} ELSE {"C01.InputOnly"})

\* ---- C12: group events <-> L_Data frames --------------------------------------------------------
JGroup(r) ==
  CASE r.op = "out" ->
         LET want == IF r.via = "router" THEN LDataInd ELSE LDataReq
             wsvc == IF r.via = "router" THEN RoutingInd ELSE TunnelReq
         IN IF r.err = 0 /\ r.frames = 1 /\ r.svc = wsvc /\ r.f.ck = "ldata" /\ OutboundOK(r.ev, r.f, want) THEN {} ELSE {"C12.Outbound"}
    [] r.op = "in" ->
         IF IsEvent(r.msg) THEN (IF r.got = 1 /\ r.gev = EventOf(r.msg) THEN {} ELSE {"C12.InboundIff"})
         ELSE (IF r.got = 0 THEN {} ELSE {"C12.InboundIff"})
    [] r.op = "e2e" -> IF r.got = 1 /\ r.gev = Normalise(r.ev) THEN {} ELSE {"C12.EndToEnd"}
    [] r.op = "close" -> IF r.got = 1 THEN {} ELSE {"C12.CloseFollows"}
    [] OTHER -> {}

\* ---- C06 / C08: datapoint decode, re-encode, decode ----------------------------------------------
JDptRT(r) ==
  LET f == Fam(r.main, r.sub)
      wrongLen == IF r.main = 28 THEN Len(r.b) < 2 ELSE Len(r.b) # FixedLen(r.main)
      acc == r.panic = 0 /\ r.ok1 = 1
  IN (IF r.panic = 0 /\ r.span = 0 THEN {} ELSE {"C08.Total"})
     \cup (IF wrongLen /\ r.ok1 = 1 THEN {"C08.WrongLengthRejected"} ELSE {})
     \cup (IF acc /\ ~wrongLen /\ ~InRange(r.main, r.sub, r.v1) THEN {"C08.InRange"} ELSE {})
     \cup (IF r.op = "rt" /\ acc /\ r.ok2 # 1 THEN {"C06.Reaccepted"} ELSE {})
     \cup (IF r.op = "rt" /\ acc /\ r.ok2 = 1 /\ r.v1 # r.v2 THEN {"C06.SameValue"} ELSE {})
     \* ... and the value is the payload's: a receiver that held an earlier value decodes it to the same value (r.reuse = 1:
     \* the harness decoded the payload into a long-lived receiver as well and got another value, verdict or re-encoding)
     \cup (IF r.op = "rt" /\ acc /\ r.reuse = 1 THEN {"C06.SameValue"} ELSE {})
     \cup (IF r.op = "rt" /\ acc /\ ~wrongLen /\ Exact(f) /\ r.b2 # CanonB(f, r.b) THEN {"C06.ByteIdentical"} ELSE {})

\* ---- C07: datapoint encoding ------------------------------------------------------------------
Abs(x) == IF x < 0 THEN 0 - x ELSE x
BE16(w) == <<w \div 256, (w % 256)>>
Scaled(f) == f \in {"F16", "S8a", "S8b", "S16c", "S16d"}

\* the exact encoding of an integer / boolean / structured value x (as logged) in family f
ExactEnc(f, x) ==
  CASE f = "B1" -> <<x.v>>
    [] f \in {"U8", "enum"} -> <<0, x.v>>
    [] f = "V8" -> <<0, ((x.v + 256) % 256)>>
    [] f = "U16" -> <<0>> \o BE16(x.v)
    [] f = "V16" -> <<0>> \o BE16(((x.v + 65536) % 65536))
    [] f = "U32" -> IF x.t = "u32" THEN <<0>> \o BE16(x.hi) \o BE16(x.lo) ELSE <<0>> \o BE16(x.v \div 65536) \o BE16((x.v % 65536))
    [] f = "V32" -> IF x.v >= 0 THEN <<0>> \o BE16(x.v \div 65536) \o BE16((x.v % 65536))
                    ELSE LET w == x.v + 2147483647 + 1 IN <<0>> \o BE16(32768 + w \div 65536) \o BE16((w % 65536))
    [] f = "F32" -> <<0>> \o BE16(x.hi) \o BE16(x.lo)
    [] f = "scene" -> <<0, DMin(x.v, 63)>>
    [] f = "scenectl" -> <<0, IF x.v <= 63 \/ (x.v >= 128 /\ x.v <= 191) THEN x.v ELSE 63>>
    [] f = "time" -> IF x.f[1] <= 7 /\ x.f[2] <= 23 /\ x.f[3] <= 59 /\ x.f[4] <= 59
                     THEN <<0, x.f[1] * 32 + x.f[2], x.f[3], x.f[4]>> ELSE <<0, 0, 0, 0>>
    [] f = "date" -> IF ValidDate(x.f[1], x.f[2], x.f[3])
                     THEN <<0, x.f[3], x.f[2], IF x.f[1] < 2000 THEN x.f[1] - 1900 ELSE x.f[1] - 2000>> ELSE <<0, 0, 0, 0>>
    [] f = "rgb" -> <<0, x.f[1], x.f[2], x.f[3]>>
    [] OTHER -> << >>
HasExactEnc(f) == f \in {"B1", "U8", "enum", "V8", "U16", "V16", "U32", "V32", "F32", "scene", "scenectl", "time", "date", "rgb"}

JDptEnc(pr, r) ==
  LET f == Fam(r.main, r.sub)
      b == r.b
      lenOk == IF r.main = 28 THEN Len(b) >= 2 /\ b[1] = 0 /\ b[Len(b)] = 0
               ELSE Len(b) = FixedLen(r.main) /\ (IF FixedLen(r.main) = 1 THEN b[1] <= 63 ELSE b[1] = 0)
      sc == Scaled(f) /\ r["in"].t = "f32" /\ lenOk
      q == Q(r["in"].hi, r["in"].lo)
      lo == RangeLoQ(r.main, r.sub)
      hi == RangeHiQ(r.main, r.sub)
      d == DecQ(f, b)
      lib == r.ok1 = 1 /\ r.v1.t = "f32"
      dv == IF lib THEN Q(r.v1.hi, r.v1.lo) ELSE 0
      mono == /\ pr.k = "dpt" /\ pr.op = "enc" /\ pr.name = r.name /\ pr.idx + 1 = r.idx /\ pr.panic = 0
              /\ Len(pr.b) = FixedLen(r.main)
  IN (IF r.panic = 0 /\ r.ok1 = 1 THEN {} ELSE {"C07.SelfDecodable"})
     \cup (IF r.panic = 1 \/ lenOk THEN {} ELSE {"C07.Length"})
     \cup (IF sc /\ q >= lo /\ q <= hi /\ Abs(d - q) > StepQ(f, q) + 2 THEN {"C07.OneStep"} ELSE {})
     \cup (IF sc /\ q < lo /\ Abs(d - lo) > StepQ(f, lo) + 2 THEN {"C07.Saturates"} ELSE {})
     \cup (IF sc /\ q > hi /\ Abs(d - hi) > StepQ(f, hi) + 2 THEN {"C07.Saturates"} ELSE {})
     \cup (IF sc /\ mono /\ DecQ(f, pr.b) > d THEN {"C07.Monotone"} ELSE {})
     \* the same three clauses on what the LIBRARY'S OWN decoder makes of the encoding (the property speaks of decoding
     \* the encoding; d above is the reference decoder's reading of the same octets)
     \cup (IF sc /\ lib /\ q >= lo /\ q <= hi /\ Abs(dv - q) > StepQ(f, q) + 2 THEN {"C07.OneStep"} ELSE {})
     \cup (IF sc /\ lib /\ q < lo /\ Abs(dv - lo) > StepQ(f, lo) + 2 THEN {"C07.Saturates"} ELSE {})
     \cup (IF sc /\ lib /\ q > hi /\ Abs(dv - hi) > StepQ(f, hi) + 2 THEN {"C07.Saturates"} ELSE {})
     \cup (IF sc /\ lib /\ mono /\ pr.ok1 = 1 /\ pr.v1.t = "f32" /\ Q(pr.v1.hi, pr.v1.lo) > dv + 2 THEN {"C07.Monotone"} ELSE {})
     \cup (IF r.panic = 0 /\ lenOk /\ HasExactEnc(f) /\ b # ExactEnc(f, r["in"]) THEN {IF f \in {"time", "date", "scene", "scenectl"} THEN "C07.Saturates" ELSE "C07.OneStep"} ELSE {})
     \cup (IF r.panic = 0 /\ r.ok1 = 1 /\ f \in {"xyY", "rgbw", "rgb"} /\ r.v1 # r["in"] THEN {"C07.SelfDecodable"} ELSE {})

JDpt(pr, r) ==
  CASE r.op \in {"rt", "dec"} -> JDptRT(r)
    [] r.op = "enc" -> JDptEnc(pr, r)
    [] OTHER -> {}

\* ---- C19: registry ---------------------------------------------------------------------------
JReg(r) ==
  CASE r.op = "name" ->
         (IF r.ok = 1 THEN {} ELSE {"C19.Listed"})
         \cup (IF WellFormed(r.name) THEN {} ELSE {"C19.Format"})
         \cup (IF r.dup = 1 THEN {} ELSE {"C19.Unique"})
         \cup (IF r.ok = 1 /\ Numeric(r.name) /\ r.type # KeyOf(r.name) THEN {"C19.Keyed"} ELSE {})
    [] r.op = "declared" ->
         IF \A i \in 1..Len(r.decl) : \E j \in 1..Len(r.prod) : r.prod[j] = r.decl[i] THEN {} ELSE {"C19.Complete"}
    [] r.op = "unknown" -> IF r.ok = 0 THEN {} ELSE {"C19.UnknownRejected"}
    [] r.op = "seq" -> Run(r.steps, 1, << >>, r.ref)
    [] r.op = "conc" -> IF r.mism = 0 THEN {} ELSE {"C19.Independent"}
    [] OTHER -> {}

\* ---- C16 (and the receiver clause of C01): real sockets over loopback -----------------------------
Surf(sent) == LET wf == SelectSeq(sent, LAMBDA f : f.wf = 1) IN [i \in 1..Len(wf) |-> wf[i].surf]
CountOf(s, x) == Cardinality({i \in 1..Len(s) : s[i] = x})
JSock(r) ==
  CASE r.op = "recv" ->
         \* every well-formed frame surfaces once, in arrival order; malformed ones are dropped and harm nobody
         (IF r.got = Surf(r.sent) THEN {}
          ELSE IF \E i \in 1..Len(r.sent) : r.sent[i].wf = 0 THEN {"C01.ReceiverSurvives", "C16.InOrderOnce"} ELSE {"C16.InOrderOnce"})
         \cup (IF r.closed = 1 /\ r.gone = 1 THEN {} ELSE {"C16.ClosedAfter"})
    [] r.op = "send" ->
         LET hexes == [i \in 1..Len(r.sent) |-> r.sent[i].hex]
         IN IF r.contig = 1 /\ Len(r.peer) = Len(hexes) /\ (\A i \in 1..Len(hexes) : CountOf(r.peer, hexes[i]) = CountOf(hexes, hexes[i]))
            THEN {} ELSE {"C16.SendAtomic"}
    [] r.op = "hpai" ->
         LET nat == <<IF r.mode = "tcp" THEN 2 ELSE 1, 0, 0, 0, 0, 0>>
             want == IF r.sendlocal = 1 /\ r.mode = "udp" /\ Len(r.local) = 6 THEN <<1, r.local[2], r.local[3], r.local[4], r.local[5], r.local[6]>> ELSE nat
         IN IF r.ctl = want /\ r.tun = want THEN {} ELSE {"C16.HpaiAdvertised"}
    [] OTHER -> {}

\* ---- C20: describe / discover over loopback ------------------------------------------------------
\* r.script[i] = [d (us after the request / the call), k]; r.found = indices returned
MaxI(a, b) == IF a > b THEN a ELSE b
JLookup(r) ==
  LET want == IF r.op = "describe" THEN "descr" ELSE "search"
      n == Len(r.script)
      slackIn == MaxI(8000, r.timeout \div 3)                  \* responses this long before the deadline must be in
      \* discover: the group is joined a moment after the call; the harness polls /proc/net/igmp and logs when it SAW the
      \* membership (r.joined, an upper bound of the join; 0 = not seen: then 8 ms plus the measured lateness are allowed for
      \* the time bound and no response counts as surely received)
      setup == IF r.op = "describe" THEN 0 ELSE IF r.joined > 0 THEN r.joined + 500 ELSE 8000 + 2 * r.stall
      sure == {i \in 1..n : r.script[i].k = want /\ r.script[i].d >= setup /\ r.script[i].d <= r.timeout - slackIn
                             /\ (r.op = "describe" \/ r.joined > 0)}
      maybe == {i \in 1..n : r.script[i].k = want /\ r.script[i].d < r.timeout + r.slack}
      matchIdx == {i \in 1..n : r.script[i].k = want}
      first == IF matchIdx = {} THEN 0 ELSE CHOOSE i \in matchIdx : \A j \in matchIdx : i <= j
      inOrder == \A a, b \in 1..Len(r.found) : a < b => r.found[a] < r.found[b]
      descOk == \/ (r.found = << >> /\ sure = {})
                \/ (Len(r.found) = 1 /\ r.found[1] = first /\ first \in maybe)
      discOk == /\ inOrder /\ (\A a \in 1..Len(r.found) : r.found[a] \in maybe)
                /\ (\A i \in sure : \E a \in 1..Len(r.found) : r.found[a] = i)
      \* the response handed back is the one received: its additional DIB still reads as sent (every octet = its index;
      \* the decoder keeps the first L-4 of the L-2 data octets of an unknown DIB -- outside the listed properties, not judged)
      intact == r.op # "describe" \/ r.found = << >> \/ (Len(r.extra) > 0 /\ \A k \in 1..Len(r.extra) : r.extra[k] = (r.found[1] % 256))
  IN (IF r.err = 0 /\ (IF r.op = "describe" THEN descOk ELSE discOk) THEN {} ELSE {IF r.op = "describe" THEN "C20.FirstMatch" ELSE "C20.AllMatches"})
     \cup (IF intact THEN {} ELSE {"C20.ResponseIntact"})
     \* table runs: the script and the set of results Lookup.tla allows for it were enumerated by TLC (MC_LookupGen);
     \* the call must have returned one of them (strict when no scripted send was late and the call itself was on time)
     \cup (IF r.table = 1 /\ r.late <= r.tol /\ r.stall <= r.tol /\ r.elapsed <= r.timeout + r.tol /\ ~(\E i \in 1..Len(r.allowed) : r.allowed[i] = r.found)
          THEN {IF r.op = "describe" THEN "C20.FirstMatch" ELSE "C20.AllMatches"} ELSE {})
     \* (upper bound widened by twice the scheduling lateness measured while the call ran: a starved machine delays the
     \* call's own timer; the lower bound of discover is never widened)
     \* An overrun is a verdict when it REPEATS: socket set-up, send and close are system calls whose latency (multicast
     \* join / leave: tens of milliseconds now and then, also on an idle machine) no sleeper measures; the harness runs an
     \* overrunning scenario again, at most twice (r.attempt, r.final = 1 on the last record of a scenario). A record that
     \* overran and is not final must be followed by another attempt - only the final one is judged for the upper bound;
     \* the lower bound (discovery never returns before its timeout) is judged on every record.
     \cup (IF (r.elapsed <= r.timeout + r.slack + setup + 2 * r.stall \/ (r.final = 0 /\ r.attempt < 3))
              /\ (r.op = "describe" \/ r.elapsed >= r.timeout) THEN {} ELSE {"C20.ReturnBound"})
     \cup (IF r.final = 1 \/ r.elapsed > r.timeout + r.slack + setup + 2 * r.stall THEN {} ELSE {"C20.ReturnBound"})
     \cup (IF r.reqs = 1 THEN {} ELSE {"C20.OneRequest"})
     \cup (IF r.hpaiok = 1 THEN {} ELSE {"C20.DescribeHpai"})
     \cup (IF r.released = 1 THEN {} ELSE {"C20.SocketReleased"})

Judge(pr, r) ==
  CASE r.k = "ldata" -> JLData(r)
    [] r.k = "helper" -> JHelper(r)
    [] r.k = "addr" -> JAddr(r)
    [] r.k = "svc" -> JSvc(r)
    [] r.k = "stab" -> IF r.panic = 0 /\ (r.ok1 = 0 \/ (r.ok2 = 1 /\ r.v2 = r.v1)) THEN {} ELSE {"C02.Stable"}
    [] r.k = "dec" -> JDec(r)
    [] r.k = "group" -> JGroup(r)
    [] r.k = "dpt" -> JDpt(pr, r)
    [] r.k = "reg" -> JReg(r)
    [] r.k = "sock" -> JSock(r)
    [] r.k = "lookup" -> JLookup(r)
    \* C15: the datagram handed to the network is exactly the frame: as long as its header says, whatever was sent before
    [] r.k = "dgram" -> IF r.dlen = r.want /\ r.hdr = r.dlen /\ r.same = 1 THEN {} ELSE {"C15.HeaderLen"}
    [] r.k = "crash" -> {"C01.NoPanic", "C16.InOrderOnce", "C20.ReturnBound"}
    [] OTHER -> {}

VARIABLE l
TInit == l = 1
NoRec == [k |-> "none"]
TNext ==
  /\ l <= Len(Recs)
  /\ LET bad == Judge(IF l = 1 THEN NoRec ELSE Recs[l - 1], Recs[l]) IN bad # {} => PrintT(<<"BAD", 0, l, l, SetToSeq(bad)>>)
  /\ (l = Len(Recs) => PrintT(<<"DONE", l>>))
  /\ l' = l + 1
TSpec == TInit /\ [][TNext]_l
=============================================================================
