--------------------------- MODULE MC_LookupGen ---------------------------
(* Enumerates every behaviour of Lookup.tla (all arrival scripts) and prints, for each terminal state, the script and
   the result the specification allows - the replay table for the real DescribeTunnel / Discover (lib/lookupgen.py). *)
EXTENDS Lookup, TLC, Json
Emit == pc = "done" => PrintT(<<"RES", ToJson([arr |-> arrivals, res |-> results, t |-> retT])>>)
=============================================================================
