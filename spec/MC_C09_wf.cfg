\* generated by spec/mkcfg.py
SPECIFICATION Spec
CONSTANTS
  Senders = {1}
  MaxSend = 0
  MaxTele = 0
  M = 4
  R = 2
  T = 4
  H = 3
  MaxNow = 7
  MaxNet = 1
  MaxRxq = 2
  MaxGwResend = 1
  DupBudget = 0
  LossBudget = 0
  InjBudget = 0
  AdvReq = FALSE
  GwFaultBudget = 0
  MaxEpoch = 2
  EnableHB = TRUE
  EnableClose = FALSE
  EnableG2C = FALSE
  Adversary = FALSE
  UseTCP = FALSE
  WFailBudget = 1
  ChanUnderLock = TRUE
  AckChanCheck = TRUE
  Urgent = FALSE
INVARIANTS TypeOK OneInFlight MutexHeld NoDupDelivery ClosedMeansClosed
VIEW view
CHECK_DEADLOCK FALSE
