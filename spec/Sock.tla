------------------------------- MODULE Sock -------------------------------
(***************************************************************************)
(* Implementation-shaped specification of knxnet/socket.go's TCP receiver  *)
(* (serveTCPSocket): a byte stream of length-prefixed frames, cut into      *)
(* arbitrary segments by the network, read through a buffered reader with   *)
(* Peek(6) -> header check -> ReadFull(totalLen) -> unpack-or-drop ->       *)
(* hand-off.  TLC checks over EVERY segmentation of small streams that the  *)
(* frames surface once, in order, and that the receiver ends after the peer *)
(* or the local side closes.  Frames are abstract: (length, well-formed?).  *)
(***************************************************************************)
EXTENDS Integers, Sequences, FiniteSets

CONSTANTS Frames,       \* sequence of [len, wf, hdr] records: total length, body decodable?, header valid?
          MaxSeg        \* how many more bytes a segment may carry (abstract network)

VARIABLES sentUpTo,     \* bytes of the stream the network has delivered to the kernel buffer
          rd,           \* bytes consumed by the reader
          pc,           \* reader: "peek" | "body" | "done"
          cur,          \* index of the frame being read
          delivered,    \* indices handed to Inbound
          peerClosed, localClosed, inbOpen

vars == <<sentUpTo, rd, pc, cur, delivered, peerClosed, localClosed, inbOpen>>

Total == LET RECURSIVE S(_) S(i) == IF i = 0 THEN 0 ELSE Frames[i].len + S(i - 1) IN S(Len(Frames))
Start(i) == LET RECURSIVE S(_) S(k) == IF k = 0 THEN 0 ELSE Frames[k].len + S(k - 1) IN S(i - 1)

Init == sentUpTo = 0 /\ rd = 0 /\ pc = "peek" /\ cur = 1 /\ delivered = << >> /\ peerClosed = FALSE /\ localClosed = FALSE /\ inbOpen = TRUE

\* the network delivers the next segment (any cut position)
Segment ==
  /\ ~peerClosed /\ sentUpTo < Total
  /\ \E n \in 1..MaxSeg : sentUpTo + n <= Total /\ sentUpTo' = sentUpTo + n
  /\ UNCHANGED <<rd, pc, cur, delivered, peerClosed, localClosed, inbOpen>>

PeerClose == ~peerClosed /\ sentUpTo = Total /\ peerClosed' = TRUE /\ UNCHANGED <<sentUpTo, rd, pc, cur, delivered, localClosed, inbOpen>>
LocalClose == ~localClosed /\ localClosed' = TRUE /\ UNCHANGED <<sentUpTo, rd, pc, cur, delivered, peerClosed, inbOpen>>

\* Peek(6): succeeds once six bytes are buffered
Peek ==
  /\ pc = "peek" /\ cur <= Len(Frames) /\ ~localClosed /\ sentUpTo - rd >= 6
  /\ IF Frames[cur].hdr /\ Frames[cur].len >= 6 THEN pc' = "body" /\ UNCHANGED inbOpen
     ELSE pc' = "done" /\ inbOpen' = FALSE      \* invalid header or a total length below the header size: the stream cannot be resynchronised
  /\ UNCHANGED <<sentUpTo, rd, cur, delivered, peerClosed, localClosed>>

\* ReadFull(totalLen), then Unpack: deliver or drop
Body ==
  /\ pc = "body" /\ ~localClosed /\ sentUpTo - rd >= Frames[cur].len
  /\ rd' = rd + Frames[cur].len
  /\ delivered' = IF Frames[cur].wf THEN Append(delivered, cur) ELSE delivered
  /\ cur' = cur + 1 /\ pc' = "peek"
  /\ UNCHANGED <<sentUpTo, peerClosed, localClosed, inbOpen>>

\* a read error (peer closed with nothing left to satisfy the read, or local close) ends the receiver
ReadError ==
  /\ pc \in {"peek", "body"}
  /\ \/ localClosed
     \/ (peerClosed /\ sentUpTo = Total /\ (IF pc = "peek" THEN sentUpTo - rd < 6 ELSE sentUpTo - rd < Frames[cur].len))
  /\ pc' = "done" /\ inbOpen' = FALSE
  /\ UNCHANGED <<sentUpTo, rd, cur, delivered, peerClosed, localClosed>>

Next == Segment \/ PeerClose \/ LocalClose \/ Peek \/ Body \/ ReadError
Spec == Init /\ [][Next]_vars /\ WF_vars(Peek) /\ WF_vars(Body) /\ WF_vars(ReadError) /\ WF_vars(Segment) /\ WF_vars(PeerClose)

WellFormedPrefix(k) == SelectSeq([i \in 1..k |-> i], LAMBDA i : Frames[i].wf)
AllHeadersOk == \A i \in 1..Len(Frames) : Frames[i].hdr /\ Frames[i].len >= 6

\* delivered is always a prefix of the well-formed frames, in order, each once
InOrderOnce == \E k \in 0..Len(Frames) : delivered = WellFormedPrefix(k)
\* when the whole stream was consumed and nobody closed early, every well-formed frame surfaced
Complete == (pc = "done" /\ ~localClosed /\ AllHeadersOk) => delivered = WellFormedPrefix(Len(Frames))
\* the receiver never reads past what arrived
NoOverread == rd <= sentUpTo
\* after either side closed, the receiver ends and Inbound is closed
ClosedAfter == (peerClosed \/ localClosed) ~> (pc = "done" /\ ~inbOpen)
=============================================================================
