SPECIFICATION Spec
CONSTANT Family = "C18"
INVARIANTS ThmAddr
CHECK_DEADLOCK FALSE
