---------------------------- MODULE TunObs ----------------------------
(***************************************************************************)
(* Property observers for the KNXnet/IP tunnel client (C03 C04 C05 C09 C10 *)
(* C17 and the channel clause of C12).                                     *)
(*                                                                         *)
(* The observer is the ABSTRACT specification of the client: a             *)
(* deterministic automaton over the observable event vocabulary (frames    *)
(* taken in / emitted at the socket, API call and return, gateway and bus  *)
(* events, virtual or monotonic time).  It says what the properties say    *)
(* and nothing about goroutines, channels or locks.  Step(o, e) consumes   *)
(* one event and returns the next observer state; o.bad lists the clauses  *)
(* violated BY THIS EVENT ("Cxx.Clause").                                  *)
(*                                                                         *)
(* It is used twice:                                                       *)
(*   - Trace_Tun.tla feeds it the events recorded from the real client;    *)
(*   - MC_Tun*.tla feeds it the events emitted by the implementation-      *)
(*     shaped specification Tunnel.tla, and TLC checks exhaustively that   *)
(*     no clause is ever flagged.                                          *)
(*                                                                         *)
(* Event record fields: k kind, t time (us), g goroutine, svc, ch, seq,    *)
(* st, pid, hex, a, b, s  (see harness/sim/rec.go).                        *)
(***************************************************************************)
EXTENDS Integers, Sequences, FiniteSets, TLC

NoEx == [pid |-> -1, seq |-> -1, ch |-> -1, hex |-> "", first |-> 0, last |-> 0,
         ntx |-> 0, fate |-> "none", ft |-> 0, lastTx |-> 0, ep |-> -1, ast |-> -1, nfor |-> 0]

Init0 ==
  [ R |-> 0, T |-> 0, H |-> 0, M |-> 256, tcp |-> FALSE, exact |-> TRUE, slk |-> 0, stall |-> 0, run |-> 0,
    now |-> 0,
    \* ---- connection phase
    phase |-> "init",        \* init | connecting | up | down
    ch |-> -1,               \* channel of the current epoch
    epoch |-> 0,
    upT |-> 0,               \* time the current epoch started
    connT |-> 0,             \* time of the first ConnReq of the current connect attempt
    connLast |-> 0,
    cause |-> FALSE,         \* a legitimate reason for a reconnect exists
    termCause |-> FALSE,     \* a legitimate reason for termination exists
    closeCalled |-> FALSE, closeRet |-> FALSE, closeT |-> 0, closeAt |-> << >>, discOut |-> 0,
    sockSendFail |-> FALSE, sockDead |-> FALSE, sockClosed |-> FALSE,
    \* ---- sender (C03)
    ex |-> NoEx,             \* the exchange in progress / the last one
    xs |-> << >>,            \* finished exchanges whose Send has not returned yet (seq of records)
    sndNext |-> 0, sndAlt |-> 0,
    \* An epoch that begins while a Send is pending is "unsettled": Sends that were already inside
    \* Send may still go out as old-epoch requests (old channel AND old numbering) until the first
    \* new-epoch request is seen.  Mixing the new channel with the old numbering is never allowed.
    unsettled |-> FALSE, oldCh |-> -1, oldNext |-> 0,
    preEpoch |-> {},         \* Sends called but not yet transmitted when the current epoch began
    seqLoose |-> FALSE,      \* unsettled AND the gateway handed out the same channel number again: the two
                             \* epochs cannot be told apart on the wire until a Send called after the switch transmits
    park |-> << >>,          \* own-channel acks taken in while no exchange was open: [seq, st, t]
    closeLate |-> FALSE,     \* a Close overdue for twice its bound has been reported
    dead |-> FALSE, deadIdle |-> 0, afterDead |-> {},   \* terminated by a disconnect response; Sends called after that
    failOnce |-> FALSE,      \* the next socket write was made to fail once by the environment
    oldPark |-> << >>,       \* what was parked under the previous channel when the epoch switched with Sends still queued
    called |-> {},           \* pids with SendCall and no SendRet
    senders |-> {},          \* application goroutines seen calling Send
    afterClose |-> {},       \* pids whose Send was called after a Close had returned
    everTx |-> {},           \* pids that had a first transmission
    \* ---- receiver (C04)
    rcvExp |-> 0,
    ackDue |-> [ch |-> -1, seq |-> -1],
    discDue |-> -1,          \* channel of a DiscRes the client owes, or -1
    reconnDue |-> FALSE,     \* the client owes a ConnReq (after DiscReq / failed heartbeat)
    acc |-> << >>,           \* accepted telegrams not yet handed to the application: [pid, parked, idle]
    idles |-> 0,             \* number of quiescent points seen (bubble)
    readerOn |-> FALSE,
    accEver |-> {},
    \* ---- heartbeat (C09)
    nextHb |-> 0,            \* time the next heartbeat worker has to start
    hbLoose |-> FALSE,       \* the epoch began while Sends were pending or queued: requestConn waits for the sequence
    hbLate |-> 0,            \* mutex behind each of them (up to T each), so the first heartbeat may be that late
    hb |-> << >>,            \* active workers: [start, last, n]
    hbOk |-> << >>,          \* times of own-channel OK responses taken in
    hbBadT |-> -1,           \* time of the last own-channel non-OK response, or -1
    \* ---- C05
    bus |-> << >>, busSet |-> {}, succLastIdx |-> 0,
    gwAcked |-> {}, recvd |-> {}, toSeqs |-> {}, seSeqs |-> {}, lastAckedIdx |-> 0, accSeq |-> << >>,
    \* ---- verdicts of this step
    bad |-> << >>, note |-> << >> ]

Flag(o, tag) == [o EXCEPT !.bad = Append(@, tag)]
Note(o, tag) == [o EXCEPT !.note = Append(@, tag)]
FlagIf(o, c, tag) == IF c THEN Flag(o, tag) ELSE o

\* Slack of the run: 0 in virtual time.  In real time timers never fire early (beyond clock
\* granularity) but goroutines may be scheduled late, so upper bounds get four times the slack of
\* lower bounds.
Slk(o) == o.slk
USlk(o) == IF o.exact THEN 0 ELSE 4 * o.slk + o.T + 2 * o.stall   \* real time: upper bounds only catch gross lateness (starved machines exist)
\* a happened at b: not earlier than b - slack, not later than b + upper slack
Near(o, a, b) == b - a <= Slk(o) /\ a - b <= USlk(o)

SeqFilter(s, P(_)) == SelectSeq(s, P)
Idx(s, x) == CHOOSE i \in 1..Len(s) : s[i] = x
InSeq(s, x) == \E i \in 1..Len(s) : s[i] = x
RemoveAt(s, i) == SubSeq(s, 1, i-1) \o SubSeq(s, i+1, Len(s))

-----------------------------------------------------------------------------
(* Time: expiry of the open exchange and of connect attempts. *)

ExOpen(o) == o.ex.fate = "open"

\* Called at the start of every event: things that became true merely because time passed.
Tick(o, t) ==
  LET o1 == [o EXCEPT !.now = t, !.bad = << >>, !.note = << >>]
      \* an exchange still open strictly after its deadline has timed out
      o2 == IF ExOpen(o1) /\ t > o1.ex.first + o1.T + USlk(o1)
            THEN [o1 EXCEPT !.ex.fate = "timeout", !.ex.ft = o1.ex.first + o1.T]
            ELSE o1
      \* parked acknowledgements are offered for one resend interval only
      o3 == [o2 EXCEPT !.park = SelectSeq(@, LAMBDA p : t - p.t <= o2.R + USlk(o2))]
      \* a connect attempt unanswered for T ends the tunnel (and any open exchange with it)
      o4 == IF o3.phase = "connecting" /\ t > o3.connT + o3.T + USlk(o3)
            THEN [o3 EXCEPT !.phase = "down", !.termCause = TRUE, !.hb = << >>, !.reconnDue = FALSE,
                            !.ex.ft = IF o3.ex.fate = "open" THEN t ELSE @,
                            !.ex.fate = IF @ = "open" THEN "term" ELSE @]
            ELSE o3
      \* a Close that has not returned long after its bound never will (judged once, at the first event past the bound;
      \* a Close that does return late is flagged at its CloseRet)
      o5 == IF o4.closeCalled /\ ~o4.closeRet /\ ~o4.closeLate /\ Len(o4.closeAt) > 0
               /\ t > o4.closeAt[1].t + 2 * ((2 + Cardinality(o4.senders)) * o4.T + o4.R) + USlk(o4)
            THEN Flag([o4 EXCEPT !.closeLate = TRUE], "C10.CloseBounded")
            ELSE o4
  IN o5

-----------------------------------------------------------------------------
(* Epochs *)

StartEpoch(o, ch, t) ==
  [o EXCEPT !.phase = "up", !.ch = ch, !.epoch = @ + 1, !.upT = t, !.nextHb = t + o.H,
            !.hbLoose = (o.ex.fate = "open" \/ o.called \ o.everTx # {}),
            !.hbLate = (Cardinality(o.called \ o.everTx) + (IF o.ex.fate = "open" THEN 1 ELSE 0)) * o.T,
            \* acknowledgements parked under the old channel do not carry the new connection's channel
            !.park = IF ch = o.ch THEN [k \in 1..Len(o.park) |-> [o.park[k] EXCEPT !.m = TRUE]] ELSE << >>,
            \* ... but a Send queued before the switch still goes out under the old channel and may take one of them
            !.oldPark = IF ch # o.ch /\ (o.called \ o.everTx # {}) THEN o.park ELSE << >>,
            !.unsettled = (o.called \ o.everTx # {}), !.preEpoch = o.called \ o.everTx,
            !.oldCh = o.ch, !.oldNext = o.sndNext,
            !.seqLoose = (o.called \ o.everTx # {} /\ ch = o.ch),
            !.sndNext = 0, !.sndAlt = 0, !.rcvExp = 0, !.hb = << >>, !.hbOk = << >>,
            !.hbBadT = -1, !.cause = FALSE, !.reconnDue = FALSE, !.toSeqs = {}, !.seSeqs = {},
            !.ackDue = [ch |-> -1, seq |-> -1], !.discDue = -1]

\* The tunnel terminates: an open exchange ends with it (its Send fails).
Terminate(o) == [o EXCEPT !.phase = "down", !.hb = << >>, !.reconnDue = FALSE,
                          !.ex.ft = IF o.ex.fate = "open" THEN o.now ELSE @,
                          !.ex.fate = IF @ = "open" THEN "term" ELSE @]

-----------------------------------------------------------------------------
(* Heartbeat workers (C09) *)

\* OK responses usable by a worker started at s: taken in within [s - R, s + T]
OkFor(o, s) == Cardinality({i \in 1..Len(o.hbOk) : o.hbOk[i] >= s - o.R - Slk(o) /\ o.hbOk[i] <= s + o.T + USlk(o)})

\* Workers whose deadline has passed are removed; a worker that saw no OK response at
\* all in its window has certainly failed: that is a cause for (and demands) a reconnect.
HbExpire(o, t) ==
  LET dead == {i \in 1..Len(o.hb) : t > o.hb[i].start + o.T + USlk(o)}
      failed == \E i \in dead : OkFor(o, o.hb[i].start) = 0
      o1 == [o EXCEPT !.hb = SelectSeq(@, LAMBDA w : ~(t > w.start + o.T + USlk(o)))]
  IN IF o.phase = "up" /\ failed
     THEN Flag(o1, "C09.FailReconnects")   \* time went past the deadline and no ConnReq was seen
     ELSE o1

\* A heartbeat worker was due strictly before t and did not start.
HbMissed(o, t) == /\ o.phase = "up" /\ ~o.reconnDue /\ ~o.closeCalled /\ ~o.sockDead
                  /\ t > o.nextHb + USlk(o) + (IF o.hbLoose THEN o.hbLate ELSE 0)

OutConnStateReq(o, e) ==
  LET t == e.t
      o0 == FlagIf(o, o.phase = "up" /\ e.ch # o.ch, "C09.HbChannel")
      loose == o.phase = "up" /\ o.hbLoose /\ t >= o.nextHb - Slk(o) /\ t <= o.nextHb + o.hbLate + USlk(o)
      isNew == (o.phase = "up" /\ Near(o, t, o.nextHb)) \/ loose
      cand == {i \in 1..Len(o.hb) : Near(o, t, o.hb[i].last + o.R) /\ t <= o.hb[i].start + o.T + USlk(o)}
  IN IF isNew
     THEN [o0 EXCEPT !.hb = Append(@, [start |-> t, last |-> t, n |-> 1]),
                     !.nextHb = IF loose THEN t + o.H ELSE @ + o.H, !.hbLoose = FALSE,
                     !.cause = @ \/ (o.hbBadT >= 0 /\ t - o.hbBadT <= o.R + USlk(o))]
     ELSE IF cand # {}
     THEN LET i == CHOOSE i \in cand : \A j \in cand : o.hb[i].last <= o.hb[j].last
          IN [o0 EXCEPT !.hb[i].last = t, !.hb[i].n = @ + 1]
     ELSE IF o.phase = "up" /\ o.exact THEN Flag(o0, "C09.HbUnexpectedTx") ELSE o0

InConnStateRes(o, e) ==
  IF o.phase # "up" \/ e.ch # o.ch THEN o
  ELSE IF e.st = 0 THEN [o EXCEPT !.hbOk = Append(@, e.t)]
  ELSE \* a non-OK response: consumed by a waiting worker (=> reconnect now) or parked for R
       \* A worker is certainly still waiting only if no OK response it could have consumed (taken in
       \* since R before its start: handleConnStateRes offers every response for R) was seen; a worker
       \* that may already have returned on such a stale OK leaves this response parked instead.
       LET waiting == {i \in 1..Len(o.hb) :
                         {j \in 1..Len(o.hbOk) : o.hbOk[j] >= o.hb[i].start - o.R - Slk(o) /\ o.hbOk[j] <= e.t} = {}}
       IN IF waiting # {} THEN [o EXCEPT !.cause = TRUE, !.reconnDue = TRUE, !.hbBadT = e.t]
          ELSE IF Len(o.hb) > 0 THEN [o EXCEPT !.cause = TRUE, !.hbBadT = e.t]
          ELSE [o EXCEPT !.hbBadT = e.t]

-----------------------------------------------------------------------------
(* Sender (C03) *)

\* Consume parked acknowledgements when a new exchange with sequence number s starts:
\* every parked ack still on offer is taken by the new Send in turn until one matches.
ConsumeParked(o, s) ==
  LET P == o.park
      hit == {i \in 1..Len(P) : P[i].seq = s}
  IN IF hit = {} THEN [o EXCEPT !.park = [k \in 1..Len(P) |-> [P[k] EXCEPT !.m = TRUE]]]  \* taken and dropped - unless their goroutines are late
     ELSE LET i == CHOOSE i \in hit : \A j \in hit : i <= j
              \* Relay goroutines reach the channel in no particular order: which matching offer is
              \* taken, and which mismatching ones were taken (and dropped) before it, is not
              \* observable.  What remains is kept as "maybe on offer".
              rest == [k \in 1..(Len(P) - 1) |-> [P[IF k < i THEN k ELSE k + 1] EXCEPT !.m = TRUE]]
              sure == /\ ~P[i].m /\ (\A j \in hit : P[j].st = P[i].st) /\ ~o.closeCalled
                      /\ o.now - P[i].t < o.R - Slk(o)     \* not at the very instant the offer expires
          IN IF sure
             THEN [o EXCEPT !.park = rest,
                            !.ex.fate = IF P[i].st = 0 THEN "ack0" ELSE "ackE",
                            !.ex.ft = o.now,
                            !.sndNext = (s + 1) % o.M, !.sndAlt = 0]
             ELSE [o EXCEPT !.park = rest, !.ex.fate = "amb", !.ex.ft = o.now, !.sndAlt = 1]

OutTunnelReq(o, e) ==
  LET t == e.t IN
  IF o.tcp THEN
     \* TCP: exactly one transmission per Send, no waiting
     LET o1 == FlagIf(o, e.pid \notin o.called, "C03.TxWithoutSend")
         o2 == FlagIf(o1, e.pid \in o.everTx, "C03.TcpOneShot")
         o3 == FlagIf(o2, o.phase = "up" /\ e.ch # o.ch, "C09.EpochFresh")
     IN [o3 EXCEPT !.everTx = @ \cup {e.pid},
                   !.xs = Append(@, [NoEx EXCEPT !.pid = e.pid, !.fate = "tcp", !.first = t, !.ft = t])]
  ELSE IF (ExOpen(o) \/ o.ex.fate = "amb") /\ e.hex = o.ex.hex THEN
     \* retransmission of the open exchange (it also settles an ambiguous one: not acknowledged)
     LET o1 == \* virtual time: exactly one resend interval after the previous transmission.  Real time: ticks may be
         \* delivered late (shortening the next gap) or dropped, never early, so the k-th retransmission cannot
         \* come before first + k * R.
         FlagIf(o, IF o.exact THEN t # o.ex.last + o.R ELSE t < o.ex.first + o.ex.ntx * o.R - 1000, "C03.RetxPeriod")
         o2 == FlagIf(o1, t > o.ex.first + o.T + USlk(o), "C03.RetxAfterDeadline")
         settle == o.ex.fate = "amb" /\ o.ex.ast = -1   \* ambiguous only because of a parked offer: evidently not taken
     IN [o2 EXCEPT !.ex.last = t, !.ex.ntx = @ + 1, !.ex.fate = IF settle THEN "open" ELSE @,
                   !.sndAlt = IF settle THEN 0 ELSE @]
  ELSE IF o.ex.fate \in {"term", "ack0", "ackE"} /\ e.hex = o.ex.hex /\ t <= o.ex.ft + USlk(o) /\ e.pid \in o.called
       THEN o   \* resend tick at the very instant of termination / of the acknowledgement: select may take it first
  ELSE IF ExOpen(o) /\ e.pid = o.ex.pid THEN Flag(o, "C03.RetxIdentical")
  ELSE
     \* first transmission of a new exchange
     \* (once the tunnel may have terminated - Close called, socket failed, disconnect response -
     \*  an open exchange can end at any moment with its Send failing)
     LET prevOpen == ExOpen(o) /\ t < o.ex.first + o.T - Slk(o) /\ ~o.termCause
         o1 == FlagIf(o, prevOpen, "C03.OneInFlight")
         \* an exchange cut off exactly at its deadline has timed out
         o1b == IF ExOpen(o1) THEN [o1 EXCEPT !.ex.fate = "timeout", !.ex.ft = o.ex.first + o.T] ELSE o1
         o2 == FlagIf(o1b, e.pid \notin o.called, "C03.TxWithoutSend")
         o3 == FlagIf(o2, e.pid \in o.everTx, "C03.RetxIdentical")
         newSeqOk == e.seq = o.sndNext \/ (o.sndAlt = 1 /\ e.seq = (o.sndNext + 1) % o.M)
         \* (the gateway may hand out the same channel number again: then the numbering tells the epochs apart)
         oldEp == o.unsettled /\ e.pid \in o.preEpoch /\ e.ch = o.oldCh /\ (e.ch # o.ch \/ ~newSeqOk)
         o4 == FlagIf(o3, o.phase = "up" /\ e.ch # o.ch /\ ~oldEp, "C09.EpochFresh")
         seqOk == IF oldEp THEN e.seq \in {o.oldNext, (o.oldNext + 1) % o.M} ELSE newSeqOk
         looseOk == o.seqLoose /\ (e.pid \in o.preEpoch \/ e.seq = 0)
         o5 == FlagIf(o4, o.phase = "up" /\ ~seqOk /\ ~looseOk, "C03.AckedConsecutive")
         keep == IF o.ex.pid \in o.called THEN Append(o5.xs, o5.ex) ELSE o5.xs
         o6 == [o5 EXCEPT !.xs = keep,
                          !.ex = [pid |-> e.pid, seq |-> e.seq, ch |-> e.ch, hex |-> e.hex, first |-> t,
                                  last |-> t, ntx |-> 1, fate |-> IF o.phase = "down" THEN "term" ELSE "open", ft |-> t, lastTx |-> t, ast |-> -1, nfor |-> 0,
                                  ep |-> IF oldEp THEN o.epoch - 1 ELSE o.epoch],
                          !.everTx = @ \cup {e.pid},
                          !.sndNext = IF oldEp THEN @ ELSE e.seq, !.sndAlt = IF oldEp THEN @ ELSE 0,
                          !.oldNext = IF oldEp THEN e.seq ELSE @,
                          !.unsettled = oldEp,
                          !.seqLoose = o.seqLoose /\ e.pid \in o.preEpoch]
     IN IF o.phase = "down" THEN o6
        ELSE IF oldEp   \* an old-epoch request may still pick up an acknowledgement parked before the switch
        THEN IF \E i \in 1..Len(o6.park) : o6.park[i].seq = e.seq THEN [o6 EXCEPT !.ex.fate = "amb"]
             ELSE IF \E i \in 1..Len(o6.oldPark) : o6.oldPark[i].seq = e.seq /\ t - o6.oldPark[i].t <= o.R + USlk(o) THEN [o6 EXCEPT !.ex.fate = "amb"]
             ELSE o6
        ELSE ConsumeParked(o6, e.seq)

InTunnelRes0(o, e) ==
  IF ~o.tcp /\ o.phase = "up" /\ o.unsettled /\ e.ch # o.ch /\ e.ch = o.oldCh /\ ExOpen(o) /\ e.ch = o.ex.ch /\ e.seq = o.ex.seq
  THEN [o EXCEPT !.ex.fate = "amb", !.ex.ft = e.t]     \* old-epoch acknowledgement for an old-epoch request
  ELSE
  IF o.tcp \/ o.phase # "up" \/ e.ch # o.ch THEN o
  ELSE IF o.ex.fate = "amb" /\ e.seq = o.ex.seq /\ o.ex.pid \in o.called
       THEN [o EXCEPT !.ex.ast = e.st, !.ex.ft = e.t]     \* a (further) matching acknowledgement for an undecided exchange
  ELSE IF ExOpen(o) THEN
       IF e.seq = o.ex.seq
       THEN LET amb == e.t >= o.ex.first + o.T - Slk(o)   \* taken in at the very deadline
                       \/ o.closeCalled                   \* or racing with close(done)
            IN [o EXCEPT !.ex.fate = IF amb THEN "amb" ELSE IF e.st = 0 THEN "ack0" ELSE "ackE",
                         !.ex.ft = e.t, !.ex.ast = e.st,
                         !.sndNext = IF amb THEN @ ELSE (e.seq + 1) % o.M,
                         !.sndAlt = IF amb THEN 1 ELSE 0]
       \* a mismatching acknowledgement is dropped by the waiting Send - unless its relay goroutine is late
       ELSE [o EXCEPT !.park = Append(@, [seq |-> e.seq, st |-> e.st, t |-> e.t, m |-> TRUE])]
  ELSE IF o.ex.fate \in {"ack0", "ackE"} /\ o.ex.pid \in o.called /\ e.seq = o.ex.seq
          /\ ((e.st = 0) # (o.ex.fate = "ack0"))
       \* two matching acknowledgements with different status before the Send returned: their relay
       \* goroutines race for the waiting Send; the outcome is either
       THEN [o EXCEPT !.ex.fate = "amb"]
  \* parked; if the previous Send has not returned yet it may still take (and drop) this one
  ELSE [o EXCEPT !.park = Append(@, [seq |-> e.seq, st |-> e.st, t |-> e.t, m |-> (o.ex.pid \in o.called)])]

\* acknowledgements that must be ignored (foreign channel, other sequence number) are counted
\* while an exchange is open: an unexplained early failure of that Send is then attributed to them
InTunnelRes(o, e) ==
  LET o1 == InTunnelRes0(o, e)
      ignored == ExOpen(o) /\ (e.ch # o.ex.ch \/ e.seq # o.ex.seq)
  IN IF ignored /\ o1.ex.pid = o.ex.pid THEN [o1 EXCEPT !.ex.nfor = @ + 1] ELSE o1

\* The exchange record of pid, for judging its SendRet.
ExOf(o, pid) ==
  IF o.ex.pid = pid THEN o.ex
  ELSE LET hit == {i \in 1..Len(o.xs) : o.xs[i].pid = pid}
       IN IF hit = {} THEN NoEx ELSE o.xs[CHOOSE i \in hit : TRUE]

SendRet(o, e) ==
  LET x == ExOf(o, e.pid)
      cls == e.s
      o0 == [o EXCEPT !.called = @ \ {e.pid},
                      !.xs = SelectSeq(@, LAMBDA y : y.pid # e.pid)]
      transmitted == x.fate # "none"
      \* C03: success only by a consumed matching OK acknowledgement
      o1 == FlagIf(o0, cls = "ok" /\ ~(x.fate \in {"ack0", "amb", "tcp"}), "C03.SuccessNeedsAck")
      o2 == FlagIf(o1, x.fate = "ackE" /\ cls = "ok", "C03.ErrAckFails")
      \* C03: return no later than T after the first transmission
      o3 == FlagIf(o2, transmitted /\ ~o.tcp /\ e.t > x.first + o.T + USlk(o), "C03.ReturnDeadline")
      \* C03: acknowledgements for another channel / sequence number never end an exchange
      unexplained == /\ transmitted /\ ~o.tcp /\ cls # "ok" /\ x.fate = "open"
                     /\ e.t < x.first + o.T - Slk(o) /\ ~o.termCause /\ ~o.sockSendFail /\ o.phase # "down"
      o3b == FlagIf(o3, unexplained /\ x.nfor > 0, "C03.ForeignIgnored")
      o3c == IF unexplained /\ x.nfor = 0 THEN Note(o3b, "drift.EarlyFailure") ELSE o3b
      \* drift-level expectations (not demanded by the property text)
      o4 == IF x.fate = "ack0" /\ cls # "ok" THEN Note(o3c, "drift.AckedButFailed") ELSE o3c
      o5 == IF cls = "timeout" /\ transmitted /\ ~Near(o, e.t, x.first + o.T) THEN Note(o4, "drift.TimeoutTime") ELSE o4
      \* C10: after Close has returned Send never succeeds
      o5a == FlagIf(o5, cls = "ok" /\ e.pid \in o.afterDead, "C09.SendsFailAfterTermination")
      o5b == FlagIf(o5a, cls = "ok" /\ e.pid \in o.afterClose, "C10.SendAfterCloseFails")
      \* a failed Send ends its exchange
      o5c == IF o5b.ex.pid = e.pid /\ ExOpen(o5b) /\ cls # "ok"
             THEN [o5b EXCEPT !.ex.fate = IF cls = "timeout" THEN "timeout" ELSE "term", !.ex.ft = e.t] ELSE o5b
      \* The numbering follows the acknowledged requests: the return of the current exchange settles
      \* whatever was ambiguous (acknowledgement at the deadline, racing relays, Close in between).
      newEp == x.ep = o.epoch
      \* an acknowledgement that turned out not to have been consumed (the Send failed) is still on offer
      o5d == IF o5c.ex.pid = e.pid /\ x.fate = "amb" /\ x.ast # -1 /\ cls \notin {"ok", "rejected"}
             THEN [o5c EXCEPT !.park = Append(@, [seq |-> x.seq, st |-> x.ast, t |-> x.ft, m |-> TRUE])] ELSE o5c
      o6 == IF o5c.ex.pid = e.pid /\ ~o.tcp /\ transmitted /\ newEp /\ x.fate # "term"
            THEN [o5d EXCEPT !.sndNext = IF cls \in {"ok", "rejected"} THEN (x.seq + 1) % o.M ELSE x.seq, !.sndAlt = 0]
            ELSE IF o5c.ex.pid = e.pid /\ ~o.tcp /\ transmitted /\ x.ep = o.epoch - 1 /\ o.unsettled
            THEN [o5d EXCEPT !.oldNext = IF cls \in {"ok", "rejected"} THEN (x.seq + 1) % o.M ELSE x.seq]
            ELSE o5d
      \* C05 bookkeeping: order of successful telegrams on the bus
  IN IF cls = "ok" /\ ~o.tcp
     THEN LET onBus == InSeq(o.bus, e.pid)
              idx == IF onBus THEN Idx(o.bus, e.pid) ELSE 0
              \* known finding C05-F1: the sequence number of a timed-out Send whose request did reach
              \* the gateway is reused; the gateway re-acknowledges it as a repetition
              f1 == \E y \in o.toSeqs : y.seq = x.seq /\ y.pid \in o.busSet
              \* known finding C05-F2: the same reuse after a Send that failed with a socket write error on a
              \* RETRANSMISSION, its first transmission having reached the gateway
              f2 == \E y \in o.seSeqs : y.seq = x.seq /\ y.pid \in o.busSet
              o7 == FlagIf(o6, ~onBus, IF f1 THEN "C05.F1.BusExactlyOnce" ELSE IF f2 THEN "C05.F2.BusExactlyOnce" ELSE "C05.BusExactlyOnce")
              o8 == FlagIf(o7, onBus /\ idx <= o.succLastIdx, "C05.BusOrder")
          IN [o8 EXCEPT !.succLastIdx = IF onBus THEN idx ELSE @]
     ELSE IF cls = "timeout" /\ transmitted THEN [o6 EXCEPT !.toSeqs = @ \cup {[seq |-> x.seq, pid |-> e.pid]}]
     ELSE IF cls = "sockerr" /\ transmitted THEN [o6 EXCEPT !.seSeqs = @ \cup {[seq |-> x.seq, pid |-> e.pid]}]
     ELSE o6

-----------------------------------------------------------------------------
(* Receiver (C04) *)

InTunnelReq(o, e) ==
  IF o.phase # "up" \/ e.ch # o.ch THEN o
  ELSE IF o.tcp THEN
       [o EXCEPT !.acc = Append(@, [pid |-> e.pid, parked |-> FALSE, idle |-> o.idles]), !.accEver = @ \cup {e.pid}, !.accSeq = Append(@, e.pid)]
  ELSE IF e.seq = o.rcvExp THEN
       LET o1 == FlagIf(o, e.pid \in o.accEver /\ e.pid >= 0, "C05.AppExactlyOnce")
       IN [o1 EXCEPT !.rcvExp = (@ + 1) % o.M, !.acc = Append(@, [pid |-> e.pid, parked |-> FALSE, idle |-> o.idles]), !.accEver = @ \cup {e.pid},
                     !.accSeq = Append(@, e.pid),
                     !.ackDue = [ch |-> e.ch, seq |-> e.seq]]
  ELSE IF e.seq = (o.rcvExp + o.M - 1) % o.M THEN [o EXCEPT !.ackDue = [ch |-> e.ch, seq |-> e.seq]]
  ELSE o

OutTunnelRes(o, e) ==
  IF o.ackDue.seq = -1 THEN Flag(o, "C04.AckSpurious")
  ELSE LET o1 == FlagIf(o, e.ch # o.ackDue.ch \/ e.seq # o.ackDue.seq \/ e.st # 0, "C04.AckExact")
       IN [o1 EXCEPT !.ackDue = [ch |-> -1, seq |-> -1]]

\* Obligations of the serve loop must be met before it takes the next frame / goes idle.
Settled(o) ==
  LET o1 == FlagIf(o, o.ackDue.seq # -1 /\ ~o.sockSendFail /\ ~o.sockClosed, "C04.AckMissing")
      o2 == FlagIf(o1, o.discDue # -1 /\ ~o.sockSendFail /\ ~o.sockClosed, "C09.DiscReqHandled")
  IN [o2 EXCEPT !.ackDue = [ch |-> -1, seq |-> -1], !.discDue = -1]

AccIdx(o, pid) == {i \in 1..Len(o.acc) : o.acc[i].pid = pid}

\* Known finding C17-F1: an overflow delivery (telegram handed over while the application
\* was not waiting, so that a helper goroutine was started for it) is overtaken by a telegram
\* accepted before that helper goroutine can have reached the channel - i.e. with no quiescent
\* point in between (in real time that cannot be observed: every overtaking of an overflow
\* delivery is attributed to the finding there).
Recv(o, e) ==
  LET hit == AccIdx(o, e.pid)
      inAcc == hit # {}
      i == IF inAcc THEN CHOOSE i \in hit : TRUE ELSE 0
      o1 == FlagIf(o, ~inAcc, IF e.pid \in o.accEver THEN "C04.NoDupDelivery" ELSE "C04.DeliverIff")
      f1 == inAcc /\ i > 1 /\ o.acc[1].parked /\ (~o.exact \/ o.acc[1].idle = o.acc[i].idle)
      o2 == FlagIf(o1, inAcc /\ i > 1, IF f1 THEN "C17.F1.InOrder" ELSE "C17.InOrder")
      \* (a Recv recorded after CloseRet may have been taken before it: not judged; RecvNone is)
      o3 == FlagIf(o2, e.pid \in o.recvd /\ e.pid \in o.gwAcked, "C05.AppExactlyOnce")
      o4 == [o3 EXCEPT !.recvd = @ \cup {e.pid}]
  IN IF inAcc THEN [o4 EXCEPT !.acc = RemoveAt(@, i)] ELSE o4

\* the serve loop reports that the telegram it just accepted went to a helper goroutine
HookParked(o) ==
  IF Len(o.acc) = 0 THEN o ELSE [o EXCEPT !.acc[Len(o.acc)].parked = TRUE]

-----------------------------------------------------------------------------
(* Connection management (C09) *)

\* Is there a legitimate reason for the client to reconnect at time t?
\* (a disconnect request / socket error / non-OK heartbeat response seen earlier, or a
\* heartbeat worker reaching its deadline without an OK response in its window; when several
\* workers overlap, which of them consumed a response is not observable: lenient.)
HasCause(o, t) ==
  \/ o.cause
  \/ \E i \in 1..Len(o.hb) : /\ t >= o.hb[i].start + o.T - Slk(o)
                              /\ (OkFor(o, o.hb[i].start) = 0 \/ Len(o.hb) > 1)

OutConnReq(o, e) ==
  IF o.phase = "connecting"
  THEN LET o1 == IF ~Near(o, e.t, o.connLast + o.R) THEN Note(o, "drift.ConnResendPeriod") ELSE o
       IN [o1 EXCEPT !.connLast = e.t]
  ELSE LET o1 == FlagIf(o, o.phase = "up" /\ ~HasCause(o, e.t), "C09.ReconnectWithoutCause")
           o2 == FlagIf(o1, o.phase = "down", "C09.ConnectAfterTermination")
       IN [o2 EXCEPT !.phase = "connecting", !.connT = e.t, !.connLast = e.t, !.reconnDue = FALSE,
                     !.hb = << >>]

InConnRes(o, e) ==
  IF o.phase # "connecting" THEN o
  ELSE IF e.st = 0 THEN StartEpoch(o, e.ch, e.t)
  ELSE IF e.st \in {36, 37} THEN o          \* 0x24 / 0x25: gateway busy, keep trying
  ELSE Terminate([o EXCEPT !.termCause = TRUE])

InDiscReq(o, e) ==
  IF o.phase = "up" /\ e.ch = o.ch
  THEN [o EXCEPT !.discDue = e.ch, !.cause = TRUE, !.reconnDue = TRUE]
  ELSE o

\* a disconnect response for the current channel (whatever its status) ends the tunnel: from the next quiescent point
\* on Inbound is closed and Sends fail (dead / deadIdle / afterDead are judged at RecvNone and SendRet)
InDiscRes(o, e) ==
  IF o.phase = "up" /\ e.ch = o.ch THEN Terminate([o EXCEPT !.termCause = TRUE, !.dead = TRUE, !.deadIdle = o.idles]) ELSE o

OutDiscRes(o, e) ==
  IF o.discDue = -1 THEN Flag(o, "C09.ForeignInert")
  ELSE LET o1 == FlagIf(o, e.ch # o.discDue, "C09.DiscReqHandled") IN [o1 EXCEPT !.discDue = -1]

-----------------------------------------------------------------------------
(* The step function *)

Out(o, e) ==
  CASE e.svc = "TunnelReq"    -> OutTunnelReq(o, e)
    [] e.svc = "TunnelRes"    -> OutTunnelRes(o, e)
    [] e.svc = "ConnStateReq" -> OutConnStateReq(o, e)
    [] e.svc = "ConnReq"      -> OutConnReq(o, e)
    [] e.svc = "DiscRes"      -> OutDiscRes(o, e)
    [] e.svc = "DiscReq"      -> LET o1 == FlagIf(o, ~o.closeCalled, "C10.DiscWithoutClose")
                                     o2 == FlagIf(o1, o.discOut >= 1, "C10.OneDisc")
                                 IN [o2 EXCEPT !.discOut = @ + 1]
    [] OTHER -> o

\* a frame taken in by the client: first the obligations of the previous frame
In(o, e) ==
  LET o0 == Settled(o) IN
  CASE e.svc = "TunnelReq"    -> InTunnelReq(o0, e)
    [] e.svc = "TunnelRes"    -> InTunnelRes(o0, e)
    [] e.svc = "ConnStateRes" -> InConnStateRes(o0, e)
    [] e.svc = "ConnRes"      -> InConnRes(o0, e)
    [] e.svc = "DiscReq"      -> InDiscReq(o0, e)
    [] e.svc = "DiscRes"      -> InDiscRes(o0, e)
    [] OTHER -> o0

\* things that must have happened by the time the system is quiescent at time t
Quiescent(o, t) ==
  LET o1 == Settled(o)
      o2 == FlagIf(o1, o1.reconnDue /\ o1.phase = "up" /\ ~o1.sockSendFail /\ ~o1.sockClosed /\ ~o1.closeCalled, "C09.FailReconnects")
      \* connect attempt unanswered for T: the tunnel terminates
      o3 == IF o2.phase = "connecting" /\ t > o2.connT + o2.T + USlk(o2) THEN Terminate([o2 EXCEPT !.termCause = TRUE]) ELSE o2
  IN o3

Cfg(o, e) ==
  [Init0 EXCEPT !.R = e.a, !.T = e.b, !.H = e.g, !.run = e.pid, !.M = IF e.seq > 0 THEN e.seq ELSE 256,
                !.tcp = (e.s \in {"tcp,bubble", "tcp,real"}),
                !.exact = (e.s \in {"udp,bubble", "tcp,bubble"}),
                !.slk = IF e.s \in {"udp,bubble", "tcp,bubble"} THEN 0 ELSE e.ch,
                !.stall = IF e.st > 0 THEN e.st ELSE 0]   \* measured scheduling lateness of a real-time run (lib/vlib.annotate_stalls)

\* C09 demands that both numberings restart at 0 and all frames carry the new channel after a
\* reconnect: the sender / receiver clauses that express this are attributed to C09 as well when
\* they are flagged in a later epoch.
EpochTags == {"C03.AckedConsecutive", "C04.AckMissing", "C04.AckSpurious", "C04.AckExact", "C04.DeliverIff"}
\* C05 speaks of telegrams "accepted for delivery to the application exactly once": a telegram the application receives
\* twice, or never although it was accepted (C04's delivery clauses), is reported under C05 as well.
AppTags == {"C04.NoDupDelivery", "C04.NothingLost", "C04.DeliverIff"}
Alias(o) ==
  LET o1 == IF o.epoch >= 2 /\ (\E i \in 1..Len(o.bad) : o.bad[i] \in EpochTags) /\ ~(\E i \in 1..Len(o.bad) : o.bad[i] = "C09.EpochFresh")
            THEN [o EXCEPT !.bad = Append(@, "C09.EpochFresh")] ELSE o
  IN IF (\E i \in 1..Len(o1.bad) : o1.bad[i] \in AppTags) /\ ~(\E i \in 1..Len(o1.bad) : o1.bad[i] = "C05.AppExactlyOnce")
     THEN [o1 EXCEPT !.bad = Append(@, "C05.AppExactlyOnce")] ELSE o1

Step0(o, e) ==
  IF e.k = "Cfg" THEN Cfg(o, e)
  ELSE IF e.k = "RunEnd" THEN [o EXCEPT !.bad = << >>, !.note = << >>]
  ELSE
  LET t == e.t
      oa == Tick(o, t)
      \* heartbeat schedule: judged on every event that carries time
      ob == IF oa.phase = "up" /\ HbMissed(oa, t) /\ ~(e.k = "Out" /\ e.svc = "ConnStateReq")
            THEN [Flag(oa, "C09.HbPeriod") EXCEPT !.nextHb = t + oa.H] ELSE oa
      oc == IF ob.phase = "up" /\ ~(e.k = "Out" /\ e.svc = "ConnReq") THEN HbExpire(ob, t) ELSE ob
  IN
  CASE e.k = "Out"  -> Out(oc, e)
    [] e.k = "In"   -> In(oc, e)
    \* a failed socket write: after a TRANSIENT failure (announced by SockFail "once") the tunnel goes on - a failed
    \* acknowledgement is merely logged, a failed request makes its Send fail, a failed heartbeat may lead to a reconnect
    \* (a failed write of the acknowledgement that was due counts as the attempt: none is missing)
    \* (a connect request that could not be written is the attempt the property asks for, and it stays unanswered: the
    \* reconnect is no longer owed and the tunnel may terminate)
    [] e.k = "OutErr" /\ e.svc = "ConnReq" ->
         \* requestConn returns the error, serve ends: the tunnel has terminated (Inbound closed, Sends fail from the next
         \* quiescent point on), like after a reconnect that stayed unanswered
         Terminate([oc EXCEPT !.cause = TRUE, !.termCause = TRUE, !.failOnce = FALSE, !.reconnDue = FALSE, !.dead = TRUE, !.deadIdle = oc.idles])
    [] e.k = "OutErr" -> [oc EXCEPT !.cause = TRUE, !.termCause = @ \/ ~oc.failOnce, !.failOnce = FALSE,
                                    !.ackDue = IF e.svc = "TunnelRes" /\ e.ch = oc.ackDue.ch /\ e.seq = oc.ackDue.seq THEN [ch |-> -1, seq |-> -1] ELSE @,
                                    \* (likewise the disconnect response that was due: the reconnect stays owed)
                                    !.discDue = IF e.svc = "DiscRes" /\ e.ch = oc.discDue THEN -1 ELSE @]
    [] e.k = "SendCall" -> [oc EXCEPT !.called = @ \cup {e.pid}, !.senders = @ \cup {e.g},
                                      !.afterDead = IF oc.dead /\ oc.exact /\ oc.idles > oc.deadIdle THEN @ \cup {e.pid} ELSE @,
                                      !.afterClose = IF oc.closeRet THEN @ \cup {e.pid} ELSE @]
    [] e.k = "SendRet"  -> SendRet(oc, e)
    [] e.k = "Recv"     -> Recv(oc, e)
    [] e.k = "RecvNone" -> FlagIf(FlagIf(oc, oc.closeRet, "C10.InboundClosedAfterClose"),
                                  oc.dead /\ oc.exact /\ oc.idles > oc.deadIdle, "C09.TerminationClosesInbound")
    [] e.k = "RecvClosed" -> FlagIf(oc, ~(\/ oc.phase = "down" \/ oc.termCause \/ oc.closeCalled \/ oc.sockDead
                                             \/ (oc.phase = "connecting" /\ t >= oc.connT + oc.T - Slk(oc))), "C09.SpuriousTermination")
    [] e.k = "Drained"  -> LET open == oc.phase = "up" /\ ~oc.termCause /\ ~oc.closeCalled
                               o1 == FlagIf(oc, open /\ Len(oc.acc) > 0, "C04.NothingLost")
                               \* C05: what the gateway got acknowledged has reached the application (tunnel still open, single epoch)
                           IN FlagIf(o1, open /\ oc.epoch = 1 /\ (oc.gwAcked \ oc.recvd # {}), "C05.AppExactlyOnce")
    [] e.k = "Idle"     -> [Quiescent(oc, t) EXCEPT !.idles = @ + 1]
    [] e.k = "Hook"     -> IF e.s = "tunnel-parked" THEN HookParked(oc) ELSE oc
    [] e.k = "CloseCall" -> LET \* an acknowledgement relayed but not yet consumed races with close(done)
                                pend == oc.ex.pid \in oc.called /\ oc.ex.fate \in {"ack0", "ackE", "amb"} /\ oc.ex.ep = oc.epoch
                                o0 == IF pend THEN [oc EXCEPT !.ex.fate = "amb", !.sndNext = oc.ex.seq, !.sndAlt = 1] ELSE oc
                                o1 == [o0 EXCEPT !.closeAt = Append(@, [g |-> e.g, t |-> t])]
                            IN IF oc.closeCalled THEN o1
                               ELSE [o1 EXCEPT !.closeCalled = TRUE, !.closeT = t, !.termCause = TRUE]
    [] e.k = "CloseRet"  -> LET mine == {i \in 1..Len(oc.closeAt) : oc.closeAt[i].g = e.g}
                                t0 == IF mine = {} THEN t ELSE oc.closeAt[CHOOSE i \in mine : \A j \in mine : i >= j].t
                                \* bound: a reconnect in progress may have to wait for the sequence mutex behind every
                                \* sender goroutine (each holding it for up to T), then for its own timeout
                                o1 == FlagIf(oc, t - t0 > (2 + Cardinality(oc.senders)) * oc.T + oc.R + USlk(oc), "C10.CloseBounded")
                                o2 == FlagIf(o1, oc.discOut = 0 /\ ~oc.sockSendFail /\ ~oc.sockDead, "C10.OneDisc")
                            IN Terminate([o2 EXCEPT !.closeRet = TRUE])
    [] e.k = "SockFail"  -> IF e.s = "once" THEN [oc EXCEPT !.failOnce = TRUE] ELSE IF e.s = "send" THEN [oc EXCEPT !.sockSendFail = TRUE, !.termCause = TRUE, !.cause = TRUE]
                            ELSE [oc EXCEPT !.sockDead = TRUE, !.termCause = TRUE, !.cause = TRUE]
    [] e.k = "SockClose" -> [oc EXCEPT !.sockClosed = TRUE]
    [] e.k = "GwBus"     -> LET o1 == FlagIf(oc, e.a \in oc.busSet, "C05.BusTwice")
                            IN [o1 EXCEPT !.bus = Append(@, e.a), !.busSet = @ \cup {e.a}]
    [] e.k = "GwAcked"   -> LET inA == InSeq(oc.accSeq, e.a)
                                o1 == FlagIf(oc, ~inA, "C05.AppExactlyOnce")
                                ix == IF inA THEN Idx(oc.accSeq, e.a) ELSE 0
                                o2 == FlagIf(o1, inA /\ ix <= oc.lastAckedIdx, "C05.AppOrder")
                            IN [o2 EXCEPT !.lastAckedIdx = IF inA THEN ix ELSE @, !.gwAcked = @ \cup {e.a}]
    [] e.k = "GwConnected" -> [oc EXCEPT !.lastAckedIdx = 0]
    [] e.k = "Census"    -> FlagIf(oc, oc.closeRet /\ e.a > 0, "C10.NoLeak")
    [] e.k = "End"       -> FlagIf(oc, e.a > 0, "C10.NoLeak")
    [] e.k = "BubbleAbort" -> Flag(oc, "C10.NoLeak")
    [] e.k = "Crash"     -> Flag(oc, "C10.NoPanic")
    [] e.k = "Race"      -> Flag(oc, IF e.s = "chan-close-send" THEN "C10.F1.NoRace" ELSE "C10.NoRace")
    [] e.k = "Hang"      -> Flag(oc, "C10.NoHang")
    [] OTHER -> oc

Step(o, e) == Alias(Step0(o, e))
=============================================================================
