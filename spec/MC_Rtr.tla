------------------------------ MODULE MC_Rtr ------------------------------
(* Router.tla composed with the RouterObs observers (see MC_Tun.tla). *)
EXTENDS Router
VARIABLE o
Obs == INSTANCE RouterObs

CfgEv == [NoEv EXCEPT !.k = "Cfg", !.a = Pause * Unit, !.b = Retain, !.ch = 0, !.pid = 1, !.s = "model"]
Feed(oo, e) == IF e.k = "none" THEN oo ELSE Obs!RStep(oo, e)

MCInit == Init /\ o = Obs!RStep(Obs!RInit0, CfgEv)
MCNext == Next /\ o' = Feed(o, ev')
MCSpec == MCInit /\ [][MCNext]_<<vars, o>>

Known == {"C17.F2.InOrder"}
ObsQuiet == \A i \in 1..Len(o.bad) : o.bad[i] \in Known
=============================================================================
