------------------------------- MODULE Dpt -------------------------------
(***************************************************************************)
(* Reference specification of the KNX datapoint wire formats (C06 C07 C08) *)
(* and of the registry naming rules (C19), written from the KNX datapoint  *)
(* type document: families, fixed lengths, reserved bits, documented       *)
(* ranges.  No floating point: IEEE-754 binary32 values are handled as bit *)
(* patterns (two 16-bit halves) and, where magnitudes have to be compared, *)
(* as exact fixed-point numbers in units of 1/1600 (Q), which every        *)
(* quantity of interest (|x| < 671089, resolution 0.01) fits into 31 bits. *)
(***************************************************************************)
EXTENDS Integers, Sequences

\* ---- families -------------------------------------------------------------
Fam(main, sub) ==
  CASE main = 1 -> "B1"
    [] main = 5 -> IF sub = 1 THEN "S8a" ELSE IF sub = 3 THEN "S8b" ELSE "U8"
    [] main = 6 -> "V8"
    [] main = 7 -> "U16"
    [] main = 8 -> IF sub \in {3, 10} THEN "S16c" ELSE IF sub = 4 THEN "S16d" ELSE "V16"
    [] main = 9 -> "F16"
    [] main = 10 -> "time"
    [] main = 11 -> "date"
    [] main = 12 -> "U32"
    [] main = 13 -> "V32"
    [] main = 14 -> "F32"
    [] main = 16 -> IF sub = 0 THEN "ascii" ELSE "latin"
    [] main = 17 -> "scene"
    [] main = 18 -> "scenectl"
    [] main = 20 -> "enum"
    [] main = 28 -> "utf8"
    [] main = 232 -> "rgb"
    [] main = 242 -> "xyY"
    [] main = 251 -> "rgbw"
    [] OTHER -> "unknown"

FixedLen(main) ==
  CASE main \in {1, 2, 3} -> 1
    [] main \in {5, 6, 17, 18, 20} -> 2
    [] main \in {7, 8, 9} -> 3
    [] main \in {10, 11, 232} -> 4
    [] main \in {12, 13, 14} -> 5
    [] main \in {242, 251} -> 7
    [] main = 16 -> 15
    [] OTHER -> -1

\* wire formats that are exact (integer, bit field, enumeration, character, IEEE-754)
Exact(f) == f \notin {"S8a", "S8b", "S16c", "S16d", "F16", "unknown"}

DMin(a, b) == IF a < b THEN a ELSE b

\* ---- IEEE-754 binary32 as two 16-bit halves --------------------------------------
FSign(hi) == hi \div 32768
FExp(hi) == (hi \div 128) % 256
FMan(hi, lo) == (hi % 128) * 65536 + lo          \* 23 bits
FIsNaNInf(hi) == FExp(hi) = 255
FIsZero(hi, lo) == FExp(hi) = 0 /\ FMan(hi, lo) = 0
\* total order of finite values by bit pattern: key grows with the value
FKeyHi(hi, lo) == IF FSign(hi) = 0 THEN 32768 + (hi % 32768) ELSE 32767 - (hi % 32768)
FKeyLo(hi, lo) == IF FSign(hi) = 0 THEN lo ELSE 65535 - lo
FLeq(ahi, alo, bhi, blo) ==
  \/ (FIsZero(ahi, alo) /\ FIsZero(bhi, blo))
  \/ FKeyHi(ahi, alo) < FKeyHi(bhi, blo)
  \/ (FKeyHi(ahi, alo) = FKeyHi(bhi, blo) /\ FKeyLo(ahi, alo) <= FKeyLo(bhi, blo))

Pow2(n) == IF n <= 0 THEN 1 ELSE IF n >= 30 THEN 1073741824 ELSE
  [i \in 0..30 |-> CASE i = 0 -> 1 [] i = 1 -> 2 [] i = 2 -> 4 [] i = 3 -> 8 [] i = 4 -> 16 [] i = 5 -> 32 [] i = 6 -> 64 [] i = 7 -> 128
     [] i = 8 -> 256 [] i = 9 -> 512 [] i = 10 -> 1024 [] i = 11 -> 2048 [] i = 12 -> 4096 [] i = 13 -> 8192 [] i = 14 -> 16384
     [] i = 15 -> 32768 [] i = 16 -> 65536 [] i = 17 -> 131072 [] i = 18 -> 262144 [] i = 19 -> 524288 [] i = 20 -> 1048576
     [] i = 21 -> 2097152 [] i = 22 -> 4194304 [] i = 23 -> 8388608 [] i = 24 -> 16777216 [] i = 25 -> 33554432 [] i = 26 -> 67108864
     [] i = 27 -> 134217728 [] i = 28 -> 268435456 [] i = 29 -> 536870912 [] OTHER -> 1073741824][n]

\* Q(x): floor(|x| * 1600) with the sign of x, for |x| < 2^20; "Huge" beyond
Huge == 2000000000
QAbs(hi, lo) ==
  LET e == FExp(hi)
      m == IF e = 0 THEN FMan(hi, lo) ELSE 8388608 + FMan(hi, lo)     \* 24-bit significand
      \* |x| = m * 2^(e - 150)   (e = 0: m * 2^-149)
      k == IF e = 0 THEN 149 ELSE 150 - e                              \* |x| = m / 2^k
  IN IF e >= 147 THEN Huge                                              \* |x| >= 2^20
     ELSE IF k - 6 >= 31 THEN 0
     ELSE IF k >= 6 THEN (25 * m) \div Pow2(k - 6)                      \* 1600 = 25 * 64
     ELSE 25 * m * Pow2(6 - k)
Q(hi, lo) == IF FSign(hi) = 1 THEN 0 - QAbs(hi, lo) ELSE QAbs(hi, lo)

\* ---- canonical re-encoding of exact families (C06) ----------------------------------
Days(m, y) == IF m \in {1, 3, 5, 7, 8, 10, 12} THEN 31 ELSE IF m \in {4, 6, 9, 11} THEN 30
              ELSE IF (y % 4 = 0 /\ y % 100 # 0) \/ y % 400 = 0 THEN 29 ELSE 28

UpToNul(b, from) ==          \* index of the last octet before the first NUL at or after `from`
  LET nul == {i \in from..Len(b) : b[i] = 0} IN
  IF nul = {} THEN Len(b) ELSE (CHOOSE i \in nul : \A j \in nul : i <= j) - 1

CanonB(f, b) ==
  CASE f = "B1" -> <<(b[1] % 2)>>
    [] f \in {"U8", "V8", "enum"} -> <<0, b[2]>>
    [] f \in {"U16", "V16"} -> <<0, b[2], b[3]>>
    [] f \in {"U32", "V32", "F32"} -> <<0, b[2], b[3], b[4], b[5]>>
    [] f = "time" -> <<0, b[2], (b[3] % 64), (b[4] % 64)>>
    [] f = "date" -> IF (b[2] % 32) = 0 /\ (b[3] % 16) = 0 /\ (b[4] % 128) = 0 THEN <<0, 1, 1, 90>>
                     ELSE <<0, (b[2] % 32), (b[3] % 16), (b[4] % 128)>>
    [] f = "scene" -> <<0, DMin(b[2], 63)>>
    [] f = "scenectl" -> <<0, IF b[2] <= 63 \/ (b[2] >= 128 /\ b[2] <= 191) THEN b[2] ELSE 63>>
    [] f = "rgb" -> <<0, b[2], b[3], b[4]>>
    [] f = "xyY" -> <<0, b[2], b[3], b[4], b[5], b[6], (b[7] % 4)>>
    [] f = "rgbw" -> <<0, b[2], b[3], b[4], b[5], 0, (b[7] % 16)>>
    [] f = "latin" -> LET e == UpToNul(b, 2) IN [i \in 1..15 |-> IF i >= 2 /\ i <= e THEN b[i] ELSE 0]
    \* 16.000: the reserved top bit of every character is dropped; the string ends at the first NUL character
    [] f = "ascii" -> LET m == [i \in 1..Len(b) |-> (b[i] % 128)]
                          e == UpToNul(m, 2)
                      IN [i \in 1..15 |-> IF i >= 2 /\ i <= e THEN m[i] ELSE 0]
    [] f = "utf8" -> <<0>> \o SubSeq(b, 2, Len(b) - 1) \o <<0>>
    [] OTHER -> b

\* ---- documented ranges (C08), values as logged: v = [t, hi, lo, v, r, f] -------------
LoQ(main, sub) ==       \* lower bound of the two-octet float types, in Q units
  IF main = 9 THEN (IF sub = 1 THEN -436800                  \* -273 degC
                    ELSE IF sub = 27 THEN -735360            \* -459.6 degF
                    ELSE IF sub \in {4, 5, 6, 7, 8, 28, 29} THEN 0
                    ELSE -1073216000)                        \* -670760 (the documented bound; the format itself reaches -671088.64)
  ELSE 0
HiQ9 == 1073217536                                           \* 670760.96

ValidDate(y, m, d) == y >= 1990 /\ y <= 2089 /\ m >= 1 /\ m <= 12 /\ d >= 1 /\ d <= Days(m, y)

InRange(main, sub, v) ==
  LET f == Fam(main, sub) IN
  CASE f = "F16" -> v.t = "f32" /\ ~FIsNaNInf(v.hi) /\ Q(v.hi, v.lo) >= LoQ(main, sub) /\ Q(v.hi, v.lo) <= HiQ9
    [] f = "S8a" -> v.t = "f32" /\ ~FIsNaNInf(v.hi) /\ Q(v.hi, v.lo) >= 0 /\ Q(v.hi, v.lo) <= 160000      \* 0..100 %
    [] f = "S8b" -> v.t = "f32" /\ ~FIsNaNInf(v.hi) /\ Q(v.hi, v.lo) >= 0 /\ Q(v.hi, v.lo) <= 576000      \* 0..360 deg
    [] f = "time" -> v.t = "struct" /\ v.f[1] <= 7 /\ v.f[2] <= 23 /\ v.f[3] <= 59 /\ v.f[4] <= 59
    [] f = "date" -> v.t = "struct" /\ ValidDate(v.f[1], v.f[2], v.f[3])
    [] f = "scene" -> v.t = "int" /\ v.v >= 0 /\ v.v <= 63
    [] f = "scenectl" -> v.t = "int" /\ (v.v <= 63 \/ (v.v >= 128 /\ v.v <= 191)) /\ v.v >= 0
    [] OTHER -> TRUE

\* ---- C07: quantisation steps and reference decodings in Q units ------------------------
\* decoded value of a wire payload, in Q units, for the scaled families
F16Man(b) == LET m == (b[2] % 8) * 256 + b[3] IN IF b[2] >= 128 THEN m - 2048 ELSE m
F16Exp(b) == (b[2] \div 8) % 16
DecQ(f, b) ==
  CASE f = "F16" -> IF F16Exp(b) <= 10 \/ (F16Man(b) <= 32767 /\ F16Man(b) >= -32768) THEN
                      (IF F16Man(b) * 16 > Huge \div Pow2(F16Exp(b)) \/ F16Man(b) * 16 < 0 - (Huge \div Pow2(F16Exp(b))) THEN
                         (IF F16Man(b) < 0 THEN 0 - Huge ELSE Huge)
                       ELSE F16Man(b) * 16 * Pow2(F16Exp(b)))
                    ELSE Huge
    [] f = "S8a" -> (b[2] * 160000) \div 255
    [] f = "S8b" -> (b[2] * 576000) \div 255
    [] f = "S16c" -> (IF b[2] >= 128 THEN (b[2] - 256) * 256 + b[3] ELSE b[2] * 256 + b[3]) * 16
    [] f = "S16d" -> (IF b[2] >= 128 THEN (b[2] - 256) * 256 + b[3] ELSE b[2] * 256 + b[3]) * 160
    [] OTHER -> 0

\* least exponent E with |x*100| representable: |x| * 100 <= 2047 * 2^E (2048 for negatives)
F16StepQ(q) ==      \* quantisation step (Q units) of the two-octet float at magnitude q (Q units)
  LET a == IF q < 0 THEN 0 - q ELSE q
      lim == IF q < 0 THEN 2048 ELSE 2047
      Es == {E \in 0..15 : a <= lim * 16 * Pow2(E)}
  IN IF Es = {} THEN 16 * 32768 ELSE 16 * Pow2(CHOOSE E \in Es : \A F \in Es : E <= F)

StepQ(f, q) ==
  CASE f = "F16" -> F16StepQ(q)
    [] f = "S8a" -> 628          \* 100/255 %
    [] f = "S8b" -> 2259         \* 360/255 degrees
    [] f = "S16c" -> 16          \* 0.01
    [] f = "S16d" -> 160         \* 0.1
    [] OTHER -> 0

\* documented input ranges of the numeric encoders, Q units
RangeLoQ(main, sub) ==
  LET f == Fam(main, sub) IN
  CASE f = "F16" -> LoQ(main, sub)
    [] f \in {"S8a", "S8b"} -> 0
    [] f = "S16c" -> -524288      \* -327.68
    [] f = "S16d" -> -5242880     \* -3276.8
    [] OTHER -> 0
RangeHiQ(main, sub) ==
  LET f == Fam(main, sub) IN
  CASE f = "F16" -> 1073216000     \* 670760
    [] f = "S8a" -> 160000
    [] f = "S8b" -> 576000
    [] f = "S16c" -> 524272       \* 327.67
    [] f = "S16d" -> 5242720      \* 3276.7
    [] OTHER -> 0
=============================================================================
