SPECIFICATION Spec
CONSTANT Family = "Dpt"
INVARIANTS ThmF16 ThmDate
CHECK_DEADLOCK FALSE
