------------------------------- MODULE Knxnet -------------------------------
(***************************************************************************)
(* Reference specification of the KNXnet/IP frames knx-go can encode       *)
(* (core, tunnelling, routing, search / description), written from the     *)
(* KNXnet/IP specification; octet sequences, arithmetic only.              *)
(*                                                                         *)
(* A value v is a record with ALL of these fields (unused ones defaulted): *)
(*   svc, ch, seq, st, layer, h1, h2 (HPAI: <<proto,a,b,c,d,port>>),       *)
(*   cemi (a Cemi value, see below), dev (device information), fams        *)
(* cemi: [ck \in {"ldata","raw","none"}, code, ... L_Data fields ..., raw]   *)
(***************************************************************************)
EXTENDS Cemi

SearchReq == 513      \* 0x0201
SearchRes == 514
DescrReq == 515
DescrRes == 516
ConnReq == 517
ConnRes == 518
ConnStateReq == 519
ConnStateRes == 520
DiscReq == 521
DiscRes == 522
TunnelReq == 1056     \* 0x0420
TunnelRes == 1057
RoutingInd == 1328    \* 0x0530
RoutingLost == 1329
RoutingBusy == 1330

Header(svc, bodyLen) == <<6, 16, Hi(svc), Lo(svc), Hi(bodyLen + 6), Lo(bodyLen + 6)>>
HPAI(h) == <<8, h[1], h[2], h[3], h[4], h[5], Hi(h[6]), Lo(h[6])>>

EncCemi(c) == IF c.ck = "ldata" THEN EncLData(c) ELSE EncRaw(c.code, c.raw)

\* friendly name: 30 octets, ISO 8859-1, NUL padded; names of 30 or more characters are cut to the field
Pad(s, n) == [i \in 1..n |-> IF i <= Len(s) THEN s[i] ELSE 0]
Name30(s) == IF Len(s) >= 30 THEN Pad(SubSeq(s, 1, 29), 30) ELSE Pad(s, 30)

DevInfo(d) == <<54, d.type, d.medium, d.status, Hi(d.src), Lo(d.src), Hi(d.proj), Lo(d.proj)>>
              \o d.serial \o d.mcast \o d.mac \o Name30(d.name)
Families(fs) == <<2 + Len(fs.list), fs.type>> \o fs.list      \* list = flattened <<family, version, ...>>

Body(v) ==
  CASE v.svc = ConnReq -> HPAI(v.h1) \o HPAI(v.h2) \o <<4, 4, v.layer, 0>>
    [] v.svc = ConnRes -> IF v.st = 0 THEN <<v.ch, 0>> \o HPAI(v.h1) \o <<4, 4, 0, 0>> ELSE <<v.ch, v.st>>
    [] v.svc = ConnStateReq -> <<v.ch, v.st>> \o HPAI(v.h1)
    [] v.svc = ConnStateRes -> <<v.ch, v.st>>
    [] v.svc = DiscReq -> <<v.ch, v.st>> \o HPAI(v.h1)
    [] v.svc = DiscRes -> <<v.ch, v.st>>
    [] v.svc = TunnelReq -> <<4, v.ch, v.seq, 0>> \o EncCemi(v.cemi)
    [] v.svc = TunnelRes -> <<4, v.ch, v.seq, v.st>>
    [] v.svc = RoutingInd -> EncCemi(v.cemi)
    [] v.svc = SearchReq -> HPAI(v.h1)
    [] v.svc = DescrReq -> HPAI(v.h1)
    [] v.svc = SearchRes -> HPAI(v.h1) \o DevInfo(v.dev) \o Families(v.fams)
    [] v.svc = DescrRes -> DevInfo(v.dev) \o Families(v.fams)
    [] OTHER -> << >>

Enc(v) == Header(v.svc, Len(Body(v))) \o Body(v)
Size(v) == Len(Body(v)) + 6
=============================================================================
