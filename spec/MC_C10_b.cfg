\* generated by spec/mkcfg.py
SPECIFICATION Spec
CONSTANTS
  Senders = {1}
  MaxSend = 1
  MaxTele = 1
  M = 4
  R = 2
  T = 4
  H = 3
  MaxNow = 6
  MaxNet = 2
  MaxRxq = 2
  MaxGwResend = 1
  DupBudget = 0
  LossBudget = 1
  InjBudget = 0
  AdvReq = FALSE
  GwFaultBudget = 0
  MaxEpoch = 2
  EnableHB = TRUE
  EnableClose = TRUE
  EnableG2C = TRUE
  Adversary = FALSE
  UseTCP = FALSE
  WFailBudget = 0
  ChanUnderLock = TRUE
  AckChanCheck = TRUE
  Urgent = FALSE
INVARIANTS TypeOK OneInFlight MutexHeld NoDupDelivery ClosedMeansClosed
VIEW view
CHECK_DEADLOCK FALSE
