------------------------------- MODULE Cemi -------------------------------
(***************************************************************************)
(* Reference specification of the cEMI frame formats used by KNXnet/IP     *)
(* tunnelling and routing, written from the KNX cEMI specification with    *)
(* multiplication / division only (no shifts, no masks), independently of  *)
(* the Go code.  Frames are sequences of octets (0..255).                  *)
(*                                                                         *)
(*   L_Data.req/con/ind:  MC | AIL | AI[AIL] | CTRL1 | CTRL2 | SRC(2) |    *)
(*                        DST(2) | L | TPCI/APCI | APCI/data | data...     *)
(*   CTRL1 = 128*std + 32*noRepeat + 16*noSysBcast + 4*prio + 2*ack + err  *)
(*   CTRL2 = 128*group + 16*hops + ext                                     *)
(*   TPCI  = 128*control + 64*numbered + 4*seq ; APCI 4 bits split 2 | 2   *)
(***************************************************************************)
EXTENDS Integers, Sequences

LDataReq == 17    \* 0x11
LDataInd == 41    \* 0x29
LDataCon == 46    \* 0x2E
LRawReq == 16     \* 0x10
LRawInd == 45     \* 0x2D
LRawCon == 47     \* 0x2F
LBusmonInd == 43  \* 0x2B
LDataCodes == {LDataReq, LDataInd, LDataCon}
RawCodes == {LRawReq, LRawInd, LRawCon, LBusmonInd}

U16(hi, lo) == hi * 256 + lo
Hi(x) == x \div 256
Lo(x) == (x % 256)
Min2(a, b) == IF a < b THEN a ELSE b

\* ---- control fields -------------------------------------------------------
Ctrl1(std, noRepeat, noSysBcast, prio, ack, err) == 128 * std + 32 * noRepeat + 16 * noSysBcast + 4 * prio + 2 * ack + err
Ctrl2(group, hops, ext) == 128 * group + 16 * hops + ext
C1Std(c) == c \div 128
C1NoRepeat(c) == ((c \div 32) % 2)
C1NoSysBcast(c) == ((c \div 16) % 2)
C1Prio(c) == ((c \div 4) % 4)
C1Ack(c) == ((c \div 2) % 2)
C1Err(c) == (c % 2)
C2Group(c) == c \div 128
C2Hops(c) == ((c \div 16) % 8)
C2Ext(c) == (c % 16)

\* helper functions of the library, over their complete 8-bit domains
RefControl1Prio(p) == ((p % 4)) * 4
RefControl2Hops(h) == Min2(h, 7) * 16
RefHops(c2) == C2Hops(c2)
RefIsGroupAddr(c2) == C2Group(c2) = 1
RefIsGroupCommand(apci) == apci < 3

\* ---- transport unit ---------------------------------------------------------
\* application unit: data is the APDU payload as the library sees it: first octet < 64 carries
\* the six short-data bits, empty data is sent as a single zero octet, at most 255 octets
AppData(d) == IF Len(d) = 0 THEN <<0>> ELSE IF Len(d) > 255 THEN SubSeq(d, 1, 255) ELSE d
EncApp(numbered, seqn, apci, d) ==
  LET dd == AppData(d)
      tpci == IF numbered = 1 THEN 64 + 4 * ((seqn % 16)) ELSE 0
  IN <<Len(dd), tpci + ((apci \div 4) % 4), ((apci % 4)) * 64 + (dd[1] % 64)>> \o Tail(dd)
EncCtl(numbered, seqn, cmd) ==
  <<0, 128 + (IF numbered = 1 THEN 64 + 4 * ((seqn % 16)) ELSE 0) + (cmd % 4)>>

\* ---- L_Data ------------------------------------------------------------------
InfoPart(info) == IF Len(info) > 255 THEN <<255>> \o SubSeq(info, 1, 255) ELSE <<Len(info)>> \o info
EncLData(f) ==
  <<f.code>> \o InfoPart(f.info) \o <<f.c1, f.c2, Hi(f.src), Lo(f.src), Hi(f.dst), Lo(f.dst)>>
  \o (IF f.kind = "app" THEN EncApp(f.numbered, f.seqn, f.cmd, f.data) ELSE EncCtl(f.numbered, f.seqn, f.cmd))

SizeLData(f) == Len(EncLData(f))

\* The canonical field values a decoder must extract from EncLData(f)
Canon(f) ==
  [code |-> f.code, info |-> IF Len(f.info) > 255 THEN SubSeq(f.info, 1, 255) ELSE f.info, c1 |-> f.c1, c2 |-> f.c2,
   src |-> f.src, dst |-> f.dst, kind |-> f.kind, numbered |-> f.numbered,
   seqn |-> IF f.numbered = 1 THEN (f.seqn % 16) ELSE 0,
   cmd |-> IF f.kind = "app" THEN (f.cmd % 16) ELSE (f.cmd % 4),
   data |-> IF f.kind = "app" THEN [i \in 1..Len(AppData(f.data)) |-> IF i = 1 THEN AppData(f.data)[1] % 64 ELSE AppData(f.data)[i]] ELSE << >>]

Err == [err |-> TRUE]

\* Decoder: total function bytes -> fields or Err, for well-formed L_Data frames.  A frame is well
\* formed when every embedded length agrees with the octets present.
DecLData(b) ==
  IF Len(b) < 2 THEN Err ELSE
  LET ail == b[2] IN
  IF Len(b) < 2 + ail + 6 + 2 THEN Err ELSE
  LET p == 2 + ail          \* last octet of the additional info
      c1 == b[p+1] c2 == b[p+2]
      src == U16(b[p+3], b[p+4]) dst == U16(b[p+5], b[p+6])
      l == b[p+7] tp == b[p+8]
      info == SubSeq(b, 3, p)
      base == [code |-> b[1], info |-> info, c1 |-> c1, c2 |-> c2, src |-> src, dst |-> dst]
  IN IF tp \div 128 = 1
     THEN IF Len(b) # p + 8 THEN Err
          ELSE [code |-> b[1], info |-> info, c1 |-> c1, c2 |-> c2, src |-> src, dst |-> dst, kind |-> "ctl",
                numbered |-> ((tp \div 64) % 2), seqn |-> ((tp \div 4) % 16), cmd |-> (tp % 4), data |-> << >>]
     ELSE IF l < 1 \/ Len(b) # p + 8 + l THEN Err
          ELSE LET a == b[p+9] IN
               [code |-> b[1], info |-> info, c1 |-> c1, c2 |-> c2, src |-> src, dst |-> dst, kind |-> "app",
                numbered |-> ((tp \div 64) % 2), seqn |-> ((tp \div 4) % 16), cmd |-> ((tp % 4)) * 4 + a \div 64,
                data |-> <<(a % 64)>> \o SubSeq(b, p + 10, p + 8 + l)]

\* ---- raw message kinds -----------------------------------------------------------
EncRaw(code, d) == <<code>> \o d

\* ---- theorems TLC checks on this module (MC_Codec) -----------------------------------
RoundTrip(f) == DecLData(EncLData(f)) = Canon(f)
CtrlIdentities ==
  /\ \A c \in 0..255 : Ctrl1(C1Std(c), C1NoRepeat(c), C1NoSysBcast(c), C1Prio(c), C1Ack(c), C1Err(c)) + 64 * (((c \div 64) % 2)) = c
  /\ \A c \in 0..255 : Ctrl2(C2Group(c), C2Hops(c), C2Ext(c)) = c
  /\ \A h \in 0..255 : RefHops(RefControl2Hops(h)) = Min2(h, 7)
=============================================================================
