------------------------------ MODULE MC_Tun ------------------------------
(* Model-checking harness: Tunnel.tla composed with the property observers. *)
(* MCNext feeds every emitted event to TunObs!Step; ObsQuiet says that no    *)
(* clause of the listed properties is ever flagged on any behaviour of the   *)
(* implementation-shaped specification (except the recorded known findings). *)
EXTENDS Tunnel
VARIABLE o
Obs == INSTANCE TunObs

CfgEv == [NoEv EXCEPT !.k = "Cfg", !.a = R * Unit, !.b = T * Unit, !.g = IF EnableHB THEN H * Unit ELSE 1000000000,
                      !.pid = 1, !.seq = M, !.s = IF UseTCP THEN "tcp,bubble" ELSE "udp,bubble"]

Feed(oo, e) == IF e.k = "none" THEN oo ELSE Obs!Step(oo, e)

MCInit == Init /\ o = Feed(Obs!Step(Obs!Init0, CfgEv), ev)
MCNext == Next /\ o' = Feed(o, ev')
MCSpec == MCInit /\ [][MCNext]_<<vars, o>>

Known == {"C05.F1.BusExactlyOnce", "C05.F2.BusExactlyOnce", "C17.F1.InOrder"}
C05Tags == {"C05.BusExactlyOnce", "C05.BusOrder", "C05.BusTwice", "C05.AppExactlyOnce", "C05.AppOrder", "C05.F1.BusExactlyOnce"}
\* C05 assumes a rule-following gateway, no forged acknowledgements and datagrams that do not outlive
\* their connection: not judged with the adversary on or across reconnects
ObsQuiet == \A i \in 1..Len(o.bad) : o.bad[i] \in Known \cup (IF Adversary \/ MaxEpoch > 1 THEN C05Tags ELSE {})
Bounded == now <= MaxNow
=============================================================================
