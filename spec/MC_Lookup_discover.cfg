SPECIFICATION Spec
CONSTANTS
  Timeout = 3
  MaxArr = 3
  Discover = TRUE
INVARIANTS ReturnBound DiscoverAll OneRequest
PROPERTY Terminates
CHECK_DEADLOCK FALSE
