------------------------------ MODULE MC_Codec ------------------------------
(* Theorems about the reference specifications themselves, checked by TLC over complete *)
(* finite domains: the formats admit loss-free round trips and the helper identities hold. *)
EXTENDS Knxnet, Addr, TLC

CONSTANT Family
VARIABLE x

Base == [code |-> LDataReq, info |-> << >>, c1 |-> 188, c2 |-> 224, src |-> 4359, dst |-> 2563, kind |-> "app",
         numbered |-> 0, seqn |-> 0, cmd |-> 2, data |-> <<1>>]

\* C11: every pair of control octets, both unit kinds; every APCI x sequence x numbered
DomC11 == [a : 0..255, b : 0..255, app : BOOLEAN]
FrameOf(d) == IF d.app THEN [Base EXCEPT !.c1 = d.a, !.c2 = d.b, !.cmd = (d.a % 16), !.seqn = (d.b % 16), !.numbered = (d.a % 2), !.data = <<(d.b % 64), d.a>>]
              ELSE [Base EXCEPT !.c1 = d.a, !.c2 = d.b, !.kind = "ctl", !.cmd = (d.a % 4), !.seqn = (d.b % 16), !.numbered = (d.a % 2), !.data = << >>]

Init == IF Family = "C11" THEN x \in DomC11 ELSE x \in {[a |-> 0, b |-> 0, app |-> TRUE]}
Next == UNCHANGED x
Spec == Init /\ [][Next]_x

ThmC11 == Family = "C11" => RoundTrip(FrameOf(x))
ThmCtrl == CtrlIdentities
ThmAddr == Family = "C18" => RoundTripAll
=============================================================================
