------------------------------ MODULE MC_Codec ------------------------------
(* Theorems about the reference specifications themselves, checked by TLC over complete *)
(* finite domains: the formats admit loss-free round trips and the helper identities hold. *)
EXTENDS Knxnet, Addr, Dpt, TLC

CONSTANT Family
VARIABLE x

Base == [code |-> LDataReq, info |-> << >>, c1 |-> 188, c2 |-> 224, src |-> 4359, dst |-> 2563, kind |-> "app",
         numbered |-> 0, seqn |-> 0, cmd |-> 2, data |-> <<1>>]

\* C11: every pair of control octets, both unit kinds; every APCI x sequence x numbered
DomC11 == [a : 0..255, b : 0..255, app : BOOLEAN]
FrameOf(d) == IF d.app THEN [Base EXCEPT !.c1 = d.a, !.c2 = d.b, !.cmd = (d.a % 16), !.seqn = (d.b % 16), !.numbered = (d.a % 2), !.data = <<(d.b % 64), d.a>>]
              ELSE [Base EXCEPT !.c1 = d.a, !.c2 = d.b, !.kind = "ctl", !.cmd = (d.a % 4), !.seqn = (d.b % 16), !.numbered = (d.a % 2), !.data = << >>]

Init == IF Family \in {"C11", "Dpt"} THEN x \in DomC11 ELSE x \in {[a |-> 0, b |-> 0, app |-> TRUE]}
Next == UNCHANGED x
Spec == Init /\ [][Next]_x

ThmC11 == Family = "C11" => RoundTrip(FrameOf(x))
ThmCtrl == CtrlIdentities
\* Dpt: the two-octet float format admits drift-free re-encoding: re-encoding the value of any of the
\* 65,536 words at the least exponent that can hold it (rounding to nearest) yields the same value
AbsI(v) == IF v < 0 THEN 0 - v ELSE v
ReEncQ(q) ==
  LET st == F16StepQ(q)                       \* 16 * 2^E at the least exponent E
      m == IF q >= 0 THEN (q + st \div 2) \div st ELSE 0 - ((0 - q + st \div 2) \div st)
  IN m * st
ThmF16 == (Family = "Dpt" /\ x.app) =>
            LET w == <<0, x.a, x.b>> q == DecQ("F16", w) IN AbsI(q) >= Huge \/ ReEncQ(q) = q
\* Dpt: the calendar of the date type
ThmDate == (Family = "Dpt" /\ ~x.app) =>
            LET y == 1990 + ((x.a % 100)) m == 1 + ((x.b % 12)) IN Days(m, y) \in 28..31 /\ (Days(2, y) = 29) = (y % 4 = 0 /\ y # 2100)
ThmAddr == Family = "C18" => RoundTripAll
=============================================================================
