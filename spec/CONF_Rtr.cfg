\* conformance generation for Router.tla: one sender, urgent client steps, deterministic busy waits, no send failures.
\* One tick is replayed as 25 ms: Pause = 50 ms, Cap = the code's 50 ms, Waits = 0 / 25 / 50 / 75 ms.
SPECIFICATION Spec
CONSTANTS
  Senders = {1}
  MaxSend = 6
  Pause = 2
  Retain = 3
  Cap = 2
  Waits = {0, 1, 2, 3}
  Counts = {0, 1, 2, 4, 65535}
  MaxInd = 4
  MaxBusy = 2
  MaxLost = 3
  FailBudget = 0
  MaxNow = 30
  EnableClose = TRUE
  Ctrls = {1}
  Urgent = TRUE
INVARIANTS Bounded NoDupDelivery
CHECK_DEADLOCK FALSE
