SPECIFICATION Spec
CONSTANTS
  Timeout = 3
  MaxArr = 3
  Discover = FALSE
INVARIANTS ReturnBound DescribeFirst OneRequest
PROPERTY Terminates
CHECK_DEADLOCK FALSE
