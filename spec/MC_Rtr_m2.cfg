\* thorough: explored completely, 5.4 M distinct states, ~60 s
SPECIFICATION Spec
CONSTANTS
  Senders = {1, 2}
  MaxSend = 2
  Pause = 2
  Retain = 2
  Cap = 3
  Waits = {0, 2}
  Counts = {0, 1, 3}
  MaxInd = 2
  MaxBusy = 1
  MaxLost = 1
  FailBudget = 1
  MaxNow = 8
  EnableClose = TRUE
  Ctrls = {0, 1}
  Urgent = FALSE
INVARIANTS Bounded NoDupDelivery NoStuck
VIEW view
CHECK_DEADLOCK FALSE
