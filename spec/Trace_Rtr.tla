---------------------------- MODULE Trace_Rtr ----------------------------
(* Evaluates the router observers (RouterObs) on traces recorded from the real client. *)
EXTENDS RouterObs, Json, IOUtils

Trace == ndJsonDeserialize(IOEnv.TRACE)
VARIABLES l, o
TInit == l = 1 /\ o = RInit0
TNext ==
  /\ l <= Len(Trace)
  /\ LET e == Trace[l]
         o2 == RStep(o, e)
     IN /\ (o2.bad # << >> => PrintT(<<"BAD", o2.run, e.n, l, o2.bad>>))
        /\ (l = Len(Trace) => PrintT(<<"DONE", l>>))
        /\ o' = o2
  /\ l' = l + 1
TSpec == TInit /\ [][TNext]_<<l, o>>
=============================================================================
