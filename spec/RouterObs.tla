---------------------------- MODULE RouterObs ----------------------------
(***************************************************************************)
(* Property observers for the KNXnet/IP router client (C13, C14 and the    *)
(* router half of C17): a deterministic automaton over the observable      *)
(* events (frames at the socket, Send call/return, trace points            *)
(* busy-locked / lost-locked / router-parked, monotonic time in us).       *)
(* Used on traces of the real client (Trace_Rtr.tla) and on the events     *)
(* emitted by the implementation-shaped specification (MC_Rtr.tla).        *)
(***************************************************************************)
EXTENDS Integers, Sequences, FiniteSets, TLC

MaxWait == 50000   \* the client's cap on the busy wait time (us)

RInit0 ==
  [ pause |-> 0, retain |-> 32, slk |-> 0, run |-> 0, now |-> 0, fifo |-> FALSE,
    model |-> FALSE,        \* events come from Router.tla (mutex modelled as strictly FIFO), not from the real client
    \* ---- transmissions
    lastTx |-> -1,          \* time of the last successful transmission
    called |-> << >>,       \* Sends in progress: [g, pid, t]
    txd |-> {},             \* pids transmitted by their own Send (not yet returned)
    \* ---- busy
    busyQ |-> << >>,        \* busy indications taken in, not yet locked: [wait, ctrl, t, inside, sent]
    until |-> -1,           \* no transmission before this time (end of the current back-off window)
    \* ---- lost / resend
    retained |-> << >>,     \* the observer's copy of the history: successfully transmitted pids, bounded
    lostQ |-> << >>,        \* lost indications taken in, not yet locked: counts
    resend |-> << >>,       \* pids the resend worker still has to transmit, in order
    multi |-> FALSE,        \* more than one resend in progress: order not judged (as the property says)
    everTx |-> {},
    \* ---- inbound
    acc |-> << >>,          \* accepted indications not yet delivered: [pid, parked]
    accEver |-> {},
    closed |-> FALSE, ended |-> FALSE,
    bad |-> << >>, note |-> << >> ]

RFlag(o, tag) == [o EXCEPT !.bad = Append(@, tag)]
RFlagIf(o, c, tag) == IF c THEN RFlag(o, tag) ELSE o

Min(a, b) == IF a < b THEN a ELSE b
LastN(s, n) == SubSeq(s, Len(s) - n + 1, Len(s))
Trim(s, n) == IF Len(s) > n THEN SubSeq(s, Len(s) - n + 1, Len(s)) ELSE s
CallIdx(o, pid) == {i \in 1..Len(o.called) : o.called[i].pid = pid}
RemoveAt(s, i) == SubSeq(s, 1, i-1) \o SubSeq(s, i+1, Len(s))

\* a successful transmission of telegram pid at time t
OutInd(o, e) ==
  LET t == e.t
      pid == e.pid
      ci == CallIdx(o, pid)
      own == ci # {} /\ pid \notin o.txd                   \* first transmission inside its own Send
      isResend == ~own /\ Len(o.resend) > 0 /\ (\E i \in 1..Len(o.resend) : o.resend[i] = pid)
      \* C13: pacing
      o1 == RFlagIf(o, o.lastTx >= 0 /\ t - o.lastTx < o.pause - o.slk, "C13.Pace")
      \* C13: back-off window
      o2 == RFlagIf(o1, t < o.until - o.slk, "C13.BusyWindow")
      \* C14: nothing but application sends and due resends
      o3 == RFlagIf(o2, ~own /\ ~isResend, "C14.ResendSpurious")
      \* C14: resends in original order (only judged while a single resend is in progress)
      o4 == RFlagIf(o3, isResend /\ ~o.multi /\ o.resend[1] # pid, "C14.ResendOrder")
      \* C13: transmissions between a busy indication and the lock: one per goroutine that was inside Send
      g == IF own THEN o.called[CHOOSE i \in ci : TRUE].g ELSE -1
      bq == o.busyQ
      grace == 200
      o5 == IF Len(bq) > 0 /\ o.fifo /\ bq[1].w # -1 /\ t > bq[1].w + grace /\ own
            THEN LET b == bq[1]
                     c == o.called[CHOOSE i \in ci : TRUE]
                     wasInside == g \in b.inside \/ c.t <= b.w + grace
                     \* On the real client Go's mutex lets a newly arriving goroutine barge once before
                     \* a woken waiter switches it to hand-off mode, so this clause is only a drift note there;
                     \* it is a checked clause on the FIFO model.
                     v == ~wasInside \/ g \in b.sent
                 IN IF ~v THEN o4 ELSE IF o.model THEN RFlag(o4, "C13.OnePerWaiter") ELSE [o4 EXCEPT !.note = Append(@, "drift.OnePerWaiter")]
            ELSE o4
      \* C13: the goroutine that retransmits lost messages is ONE goroutine: once the busy indication has been taken in, it may
      \* get one more transmission out (it was inside Send) and, on the real client, a second one (Go's mutex lets a running
      \* goroutine barge until a waiter has starved for 1 ms, then hands the lock over) - a third retransmission later than
      \* 1.5 ms after the busy indication was taken in, with the lock still not with the busy handler, means that the
      \* retransmissions are not queueing behind it at all
      lateRs == Len(bq) > 0 /\ bq[1].w # -1 /\ isResend /\ t > bq[1].w + 1500 + o.slk
      o6 == RFlagIf(o5, lateRs /\ bq[1].rs + 1 >= 3, "C13.BusyResend")
      nbq0 == IF Len(bq) > 0 /\ own /\ bq[1].w # -1 /\ t > bq[1].w + grace THEN [bq EXCEPT ![1].sent = @ \cup {g}] ELSE bq
      nbq == IF lateRs THEN [nbq0 EXCEPT ![1].rs = @ + 1] ELSE nbq0
      rs == IF isResend THEN LET i == CHOOSE i \in 1..Len(o.resend) : o.resend[i] = pid /\ \A j \in 1..Len(o.resend) : o.resend[j] = pid => i <= j
                             IN RemoveAt(o.resend, i)
            ELSE o.resend
  IN [o6 EXCEPT !.lastTx = t, !.retained = Trim(Append(@, pid), o.retain),
                !.txd = IF own THEN @ \cup {pid} ELSE @, !.everTx = @ \cup {pid},
                !.busyQ = nbq, !.resend = rs, !.multi = IF rs = << >> THEN FALSE ELSE @]

InBusy(o, e) ==
  [o EXCEPT !.busyQ = Append(@, [wait |-> e.a * 1000, ctrl |-> e.seq, t |-> e.t, w |-> -1, inside |-> {}, sent |-> {}, rs |-> 0])]

\* the serve goroutine is about to request the lock: from now on (plus a scheduling grace) only
\* goroutines already inside Send are ahead of it in the queue
HookBusyWait(o, e) ==
  IF Len(o.busyQ) = 0 THEN o
  ELSE LET hit == {i \in 1..Len(o.busyQ) : o.busyQ[i].w = -1}
       IN IF hit = {} THEN o
          ELSE LET i == CHOOSE i \in hit : \A j \in hit : i <= j
               IN [o EXCEPT !.busyQ[i].w = e.t, !.busyQ[i].inside = {o.called[k].g : k \in 1..Len(o.called)}]

HookBusyLocked(o, e) ==
  IF Len(o.busyQ) = 0 THEN RFlag(o, "C13.BusyLockSpurious")
  ELSE LET b == o.busyQ[1]
           w == e.a
           lo == Min(b.wait, MaxWait)
           o1 == RFlagIf(o, w < lo \/ w > MaxWait, "C13.BusyWait")
           o2 == RFlagIf(o1, b.ctrl # 0 /\ w # lo, "C13.BusyWait")
       \* a back-off window once announced stays in force: a later (shorter) one never cuts it short. In the code the next
       \* busy handler gets the lock only after the previous window has ended, so its window always ends later anyway.
       IN [o2 EXCEPT !.busyQ = Tail(@), !.until = IF e.t + w > @ THEN e.t + w ELSE @]

HookLostLocked(o, e) ==
  IF Len(o.lostQ) = 0 THEN RFlag(o, "C14.LostLockSpurious")
  ELSE LET k == Min(o.lostQ[1], Len(o.retained))
           due == LastN(o.retained, k)
       IN [o EXCEPT !.lostQ = Tail(@),
                    !.retained = SubSeq(@, 1, Len(@) - k),       \* resendLost removes them; Send puts them back
                    !.multi = (Len(o.resend) > 0),
                    !.resend = @ \o due]

RRecv(o, e) ==
  LET hit == {i \in 1..Len(o.acc) : o.acc[i].pid = e.pid}
      inAcc == hit # {}
      i == IF inAcc THEN CHOOSE i \in hit : TRUE ELSE 0
      o0 == RFlagIf(o, ~inAcc, IF e.pid \in o.accEver THEN "C14.DeliveredOnce" ELSE "C14.DeliveredNotReceived")
      \* C17: the sequence handed to the application is the sequence accepted - a telegram handed over a second time (or,
      \* at the end of a run, never) breaks that as well, and unlike a mere overtaking it cannot be the known finding F2
      o1 == RFlagIf(o0, ~inAcc, "C17.Sequence")
      f1 == inAcc /\ i > 1 /\ o.acc[1].parked
      o2 == RFlagIf(o1, inAcc /\ i > 1, IF f1 THEN "C17.F2.InOrder" ELSE "C17.InOrder")
  IN IF inAcc THEN [o2 EXCEPT !.acc = RemoveAt(@, i)] ELSE o2

RCfg(o, e) == [RInit0 EXCEPT !.pause = e.a, !.retain = e.b, !.slk = e.ch, !.run = e.pid, !.fifo = (e.a >= 1000), !.model = (e.s = "model")]

RStep(o, e) ==
  IF e.k = "Cfg" THEN RCfg(o, e)
  ELSE IF e.k = "RunEnd" \/ (o.ended /\ e.k # "Hang") THEN [o EXCEPT !.bad = << >>, !.note = << >>]   \* after End: teardown, not judged
  ELSE
  LET oc == [o EXCEPT !.now = e.t, !.bad = << >>, !.note = << >>] IN
  CASE e.k = "Out" /\ e.svc = "RoutingInd" -> OutInd(oc, e)
    [] e.k = "OutErr" /\ e.svc = "RoutingInd" ->
          \* a failed socket write: if it was a resend attempt, that message is gone (errors are ignored
          \* by the resend worker and failed transmissions are not retained)
          LET own == CallIdx(oc, e.pid) # {} /\ e.pid \notin oc.txd
              hit == {i \in 1..Len(oc.resend) : oc.resend[i] = e.pid}
          IN IF ~own /\ hit # {} THEN [oc EXCEPT !.resend = RemoveAt(@, CHOOSE i \in hit : \A j \in hit : i <= j),
                                                  !.multi = IF Len(oc.resend) = 1 THEN FALSE ELSE @]
             ELSE oc
    [] e.k = "In" /\ e.svc = "RoutingBusy" -> InBusy(oc, e)
    [] e.k = "In" /\ e.svc = "RoutingLost" -> [oc EXCEPT !.lostQ = Append(@, e.a)]
    [] e.k = "In" /\ e.svc = "RoutingInd" ->
          [oc EXCEPT !.acc = Append(@, [pid |-> e.pid, parked |-> FALSE]), !.accEver = @ \cup {e.pid}]
    [] e.k = "Hook" /\ e.s = "busy-wait" -> HookBusyWait(oc, e)
    [] e.k = "Hook" /\ e.s = "busy-locked" -> HookBusyLocked(oc, e)
    [] e.k = "Hook" /\ e.s = "lost-locked" -> HookLostLocked(oc, e)
    [] e.k = "Hook" /\ e.s = "router-parked" ->
          IF Len(oc.acc) = 0 THEN oc ELSE [oc EXCEPT !.acc[Len(oc.acc)].parked = TRUE]
    [] e.k = "SendCall" -> [oc EXCEPT !.called = Append(@, [g |-> e.g, pid |-> e.pid, t |-> e.t])]
    [] e.k = "SendRet" ->
          LET ci == CallIdx(oc, e.pid)
              o1 == RFlagIf(oc, e.s = "ok" /\ e.pid \notin oc.txd, "C14.SendOkWithoutTx")
              o2 == RFlagIf(o1, e.s # "ok" /\ e.pid \in oc.txd, "C14.SendFailedButTx")
          IN [o2 EXCEPT !.called = IF ci = {} THEN @ ELSE RemoveAt(@, CHOOSE i \in ci : TRUE), !.txd = @ \ {e.pid}]
    [] e.k = "Recv" -> RRecv(oc, e)
    [] e.k = "SockClose" -> [oc EXCEPT !.closed = TRUE]
    [] e.k = "SockFail" -> IF e.s = "inbound" THEN [oc EXCEPT !.closed = TRUE] ELSE oc
    [] e.k = "RecvNone" -> RFlagIf(oc, oc.closed /\ e.a = 1, "C14.CloseClosesInbound")
    [] e.k = "Drained" -> RFlagIf(RFlagIf(oc, ~oc.closed /\ Len(oc.acc) > 0, "C14.DeliveredOnce"), ~oc.closed /\ Len(oc.acc) > 0, "C17.Sequence")
    [] e.k = "End" ->
          LET o1 == RFlagIf(oc, Len(oc.called) > 0, "C13.Resumes")
              o2 == RFlagIf(o1, Len(oc.busyQ) > 0 /\ ~oc.closed /\ e.t - oc.busyQ[1].t > 5 * MaxWait + 20 * oc.pause, "C13.BusyTaken")
              o3 == RFlagIf(o2, Len(oc.resend) > 0 /\ ~oc.closed /\ e.b = 0, "C14.ResendMissing")
              o4 == RFlagIf(o3, Len(oc.lostQ) > 0 /\ ~oc.closed, "C14.LostTaken")
          IN [o4 EXCEPT !.ended = TRUE]
    [] e.k = "Crash" -> RFlag(oc, "C14.NoPanic")
    [] e.k = "Hang" -> RFlag(oc, "C13.Resumes")
    [] OTHER -> oc
=============================================================================
