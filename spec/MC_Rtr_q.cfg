SPECIFICATION Spec
CONSTANTS
  Senders = {1, 2}
  MaxSend = 3
  Pause = 2
  Retain = 2
  Cap = 5
  Waits = {0, 1, 7}
  Counts = {0, 1, 3}
  MaxInd = 2
  MaxBusy = 1
  MaxLost = 1
  FailBudget = 1
  MaxNow = 12
  EnableClose = TRUE
  Ctrls = {0, 1}
  Urgent = FALSE
INVARIANTS Bounded NoDupDelivery NoStuck
VIEW view
CHECK_DEADLOCK FALSE
