------------------------------- MODULE Lookup -------------------------------
(***************************************************************************)
(* Implementation-shaped specification of knx.DescribeTunnel and           *)
(* knx.DiscoverOnInterface: one request, then a select loop over the       *)
(* socket's Inbound channel and a single timeout timer armed once.         *)
(* Arrivals (matching response / other service / malformed - dropped by    *)
(* the receiver) happen at scripted ticks.  TLC checks: Describe returns   *)
(* the first matching response that arrived before the timeout, else none, *)
(* never later than the timeout; Discover returns at the timeout with      *)
(* exactly the matching responses received until then, once, in order.     *)
(***************************************************************************)
EXTENDS Integers, Sequences

CONSTANTS Timeout, MaxArr, Discover   \* ticks; number of arrivals; which call

VARIABLES now, arrivals,  \* sequence of [t, kind]: what the peer sends and when (chosen nondeterministically)
          k,              \* next arrival to be handed over by the receiver
          results, pc, retT, reqs

vars == <<now, arrivals, k, results, pc, retT, reqs>>
Kinds == {"match", "other", "malformed"}

Init ==
  /\ now = 0 /\ k = 1 /\ results = << >> /\ pc = "loop" /\ retT = -1 /\ reqs = 1
  /\ \E n \in 0..MaxArr : arrivals \in [1..n -> [t : 0..(Timeout + 2), kind : Kinds]]
  /\ \A i \in 1..(Len(arrivals) - 1) : arrivals[i].t <= arrivals[i + 1].t

\* the receiver hands over the next frame that has arrived (malformed ones never surface)
Take ==
  /\ pc = "loop" /\ k <= Len(arrivals) /\ arrivals[k].t <= now
  /\ k' = k + 1
  /\ IF arrivals[k].kind = "match"
     THEN /\ results' = Append(results, k)
          /\ IF Discover THEN UNCHANGED <<pc, retT>> ELSE pc' = "done" /\ retT' = now
     ELSE UNCHANGED <<results, pc, retT>>
  /\ UNCHANGED <<now, arrivals, reqs>>

TimeoutFires ==
  /\ pc = "loop" /\ now >= Timeout
  /\ pc' = "done" /\ retT' = now
  /\ UNCHANGED <<now, arrivals, k, results, reqs>>

\* time passes unless the timeout is due (select may take either ready arm at the deadline)
\* (a frame that has arrived is taken before time passes: the loop is parked in the select)
Pending == k <= Len(arrivals) /\ arrivals[k].t <= now
Tick == pc = "loop" /\ now < Timeout /\ ~Pending /\ now' = now + 1 /\ UNCHANGED <<arrivals, k, results, pc, retT, reqs>>

Next == Take \/ TimeoutFires \/ Tick
Spec == Init /\ [][Next]_vars /\ WF_vars(Next)

Matching(upto) == SelectSeq([i \in 1..Len(arrivals) |-> i], LAMBDA i : arrivals[i].kind = "match" /\ arrivals[i].t < upto)

\* ---- properties ----------------------------------------------------------------------------
ReturnBound == pc = "done" => (retT <= Timeout /\ (Discover => retT = Timeout))
DescribeFirst == (pc = "done" /\ ~Discover) =>
  /\ Len(results) <= 1
  /\ (Len(results) = 1 => results[1] = Matching(Timeout + 1)[1])            \* the first matching response
  /\ (Len(results) = 0 => Matching(Timeout) = << >>)                        \* none that arrived strictly before the timeout
\* everything that arrived strictly before the timeout, once, in order; of the frames arriving at the
\* very deadline a prefix may be included (select takes either ready arm)
IsPrefix(a, b) == Len(a) <= Len(b) /\ a = SubSeq(b, 1, Len(a))
DiscoverAll == (pc = "done" /\ Discover) => IsPrefix(Matching(Timeout), results) /\ IsPrefix(results, Matching(Timeout + 1))
OneRequest == reqs = 1
Terminates == <>(pc = "done")
=============================================================================
