------------------------------- MODULE Registry -------------------------------
(***************************************************************************)
(* Reference specification of the datapoint registry (C19): names are      *)
(* main.sub with a three-digit sub-number, unique, keyed to the type       *)
(* bearing that number; Produce yields fresh zero values; instances are    *)
(* independent: the value of an instance is a function of the payloads     *)
(* decoded INTO THAT INSTANCE only.  Names and type names are sequences of  *)
(* code points (TLA+ strings are atomic).                                  *)
(***************************************************************************)
EXTENDS Integers, Sequences

IsDigit(c) == c >= 48 /\ c <= 57
Dot == 46
DotPos(n) == {i \in 1..Len(n) : n[i] = Dot}
\* main.sub, digits only, non-empty main, exactly three sub digits
WellFormed(n) ==
  /\ DotPos(n) # {} /\ \A i, j \in DotPos(n) : i = j
  /\ LET d == CHOOSE i \in DotPos(n) : TRUE IN
     /\ d > 1 /\ Len(n) - d = 3
     /\ \A i \in 1..Len(n) : i = d \/ IsDigit(n[i])
\* relaxed form: any number of sub digits (for keying the one name that is not well formed)
Numeric(n) ==
  /\ DotPos(n) # {} /\ \A i, j \in DotPos(n) : i = j
  /\ LET d == CHOOSE i \in DotPos(n) : TRUE IN d > 1 /\ d < Len(n) /\ \A i \in 1..Len(n) : i = d \/ IsDigit(n[i])

\* "DPT_" followed by the digits of main and sub
Prefix == <<68, 80, 84, 95>>
KeyOf(n) == LET d == CHOOSE i \in DotPos(n) : TRUE IN Prefix \o SubSeq(n, 1, d - 1) \o SubSeq(n, d + 1, Len(n))

\* ---- independence: replay an operation sequence on the model -------------------------------
\* model state: inst |-> [t, p] (type index, last payload successfully applied; 0 = none)
RECURSIVE Run(_, _, _, _)
Run(steps, k, st, ref) ==
  IF k > Len(steps) THEN {}
  ELSE LET s == steps[k] IN
       CASE s.op = "produce" -> Run(steps, k + 1, Append(st, [t |-> s.t, p |-> 0]), ref)
         [] s.op = "unpack" -> Run(steps, k + 1, IF s.ok = 1 THEN [st EXCEPT ![s.inst].p = s.p] ELSE st, ref)
         [] s.op = "read" ->
              (IF s.val = ref[st[s.inst].t][st[s.inst].p + 1] THEN {}
               ELSE {IF st[s.inst].p = 0 THEN "C19.FreshZero" ELSE "C19.Independent"})
              \cup Run(steps, k + 1, st, ref)
         [] OTHER -> Run(steps, k + 1, st, ref)
=============================================================================
