------------------------------ MODULE MC_Sock ------------------------------
EXTENDS Sock
F(l, w, h) == [len |-> l, wf |-> w, hdr |-> h]
\* well-formed, malformed-body, and (last) a frame whose header announces a length below the header size
FramesA == << F(8, TRUE, TRUE), F(7, FALSE, TRUE), F(10, TRUE, TRUE), F(6, TRUE, TRUE) >>
FramesB == << F(9, TRUE, TRUE), F(12, FALSE, TRUE), F(8, TRUE, TRUE), F(6, TRUE, FALSE), F(8, TRUE, TRUE) >>
=============================================================================
