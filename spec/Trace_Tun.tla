---------------------------- MODULE Trace_Tun ----------------------------
(* Evaluates the tunnel observers (TunObs) on traces recorded from the real   *)
(* client.  Many runs are concatenated; each starts with a Cfg event, which   *)
(* resets the observer.  Deterministic: one state per consumed trace line.    *)
EXTENDS TunObs, Json, IOUtils

Trace == ndJsonDeserialize(IOEnv.TRACE)

VARIABLES l, o

TInit == l = 1 /\ o = Init0

TNext ==
  /\ l <= Len(Trace)
  /\ LET e == Trace[l]
         o2 == Step(o, e)
     IN /\ (o2.bad # << >> => PrintT(<<"BAD", o2.run, e.n, l, o2.bad>>))
        /\ (o2.note # << >> => PrintT(<<"NOTE", o2.run, e.n, l, o2.note>>))
        /\ (l = Len(Trace) => PrintT(<<"DONE", l>>))
        /\ o' = o2
  /\ l' = l + 1

TSpec == TInit /\ [][TNext]_<<l, o>>
=============================================================================
