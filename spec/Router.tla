------------------------------- MODULE Router -------------------------------
(***************************************************************************)
(* Implementation-shaped specification of knx-go's router client           *)
(* (knx/router.go): Send with its post-send pause, the serve loop with the *)
(* routing-busy back-off (sendMu locked by the serve goroutine, unlocked   *)
(* by a timer) and the routing-lost resend (history popped under the lock, *)
(* re-sent by a helper goroutine through Send), pushInbound, Close.        *)
(* sendMu is modelled as Go's mutex in its starvation regime: waiters are  *)
(* served in arrival order (every wait here crosses a timer > 1 ms).       *)
(* Each step emits at most one event `ev` (RouterObs vocabulary) and names *)
(* the environment choice it corresponds to in `act`.                      *)
(***************************************************************************)
EXTENDS Integers, Sequences, FiniteSets, TLC

CONSTANTS Senders, MaxSend, Pause, Retain, Cap, Waits, Counts, MaxInd, MaxBusy, MaxLost, FailBudget, MaxNow, EnableClose,
          Ctrls,   \* control fields a busy indication may carry (0 = the client adds a random share to the wait time)
          Urgent   \* TRUE: client steps and due timers pre-empt every environment step (conformance generation, cf. Tunnel.tla)

VARIABLES now, mu, muq, snd, srv, workers, retained, rxq, sockOpen, inbOpen,
          starting, queued, reader, got, delivered,
          nsend, nind, nbusy, nlost, nfail, ev, act,
          tfire    \* the last instant at which a timer of the client fired (history; used by EnvOK only)

vars == <<now, mu, muq, snd, srv, workers, retained, rxq, sockOpen, inbOpen, starting, queued, reader, got, delivered,
          nsend, nind, nbusy, nlost, nfail, ev, act>>
\* everything except the labels (ev, act) and tfire; `delivered` stays: NoDupDelivery reads it (an invariant is only
\* evaluated on states whose VIEW is new)
view == <<now, mu, muq, snd, srv, workers, retained, rxq, sockOpen, inbOpen, starting, queued, reader, got, delivered,
          nsend, nind, nbusy, nlost, nfail>>

Unit == 1000
NoEv == [k |-> "none", t |-> 0, g |-> -1, svc |-> "", ch |-> -1, seq |-> -1, st |-> -1, pid |-> -1,
         hex |-> "", a |-> -1, b |-> -1, s |-> ""]
Ev(k) == [NoEv EXCEPT !.k = k, !.t = now * Unit]
Act(n, a, b) == [n |-> n, a |-> a, b |-> b]
Free == [h |-> "none", until |-> -1]
SrvB == -1
SrvL == -2
Wk(i) == 100 + i
Min(a, b) == IF a < b THEN a ELSE b
LastN(s, n) == SubSeq(s, Len(s) - n + 1, Len(s))
Trim(s) == IF Len(s) > Retain THEN SubSeq(s, Len(s) - Retain + 1, Len(s)) ELSE s

\* Goroutines of the client that are, at this very moment, on their way to queue for the send mutex: resend workers
\* with messages left and the serve loop with a busy / lost indication at hand. When two of them are, the order in
\* which they join is decided by the Go runtime: the joining step is labelled "choice" (cf. Tunnel.tla).
EnqRace ==
  LET wk == Cardinality({i \in 1..Len(workers) : workers[i].st = "ready" /\ Len(workers[i].todo) > 0})
      sv == IF srv.pc = "busyw" \/ (srv.pc \in {"idle", "push"} /\ \E i \in 1..Len(rxq) : rxq[i].svc \in {"RoutingBusy", "RoutingLost"})
            THEN 1 ELSE 0
  IN wk + sv >= 2
EnqAct == Act(IF EnqRace THEN "choice" ELSE "enq", 0, 0)

Init ==
  /\ now = 0 /\ mu = Free /\ muq = << >>
  /\ snd = [g \in Senders |-> [st |-> "idle", pid |-> -1]]
  /\ srv = [pc |-> "idle", a |-> -1, c |-> -1]
  /\ workers = << >>
  /\ retained = << >> /\ rxq = << >> /\ sockOpen = TRUE /\ inbOpen = TRUE
  /\ starting = {} /\ queued = << >> /\ reader = "idle" /\ got = -1 /\ delivered = << >>
  /\ nsend = 0 /\ nind = 0 /\ nbusy = 0 /\ nlost = 0 /\ nfail = 0
  /\ ev = NoEv /\ act = Act("init", 0, 0)
  /\ tfire = -1

-----------------------------------------------------------------------------
(* Router.Send *)

AppSend(g) ==
  /\ snd[g].st = "idle" /\ nsend < MaxSend
  /\ snd' = [snd EXCEPT ![g] = [st |-> "locking", pid |-> 100 + nsend]]
  /\ muq' = Append(muq, g) /\ nsend' = nsend + 1
  /\ ev' = [Ev("SendCall") EXCEPT !.g = g, !.pid = 100 + nsend] /\ act' = Act("send", g, 0)
  /\ UNCHANGED <<now, mu, srv, workers, retained, rxq, sockOpen, inbOpen, starting, queued, reader, got, delivered, nind, nbusy, nlost, nfail, tfire>>

\* Lock acquired and the socket write: one step (the Out event is recorded under the lock)
Transmit(pid, ok) ==
  /\ mu' = [h |-> IF ok THEN "pause" ELSE "unlock", until |-> IF ok THEN now + Pause ELSE now]
  /\ retained' = IF ok THEN Trim(Append(retained, pid)) ELSE retained
  /\ ev' = IF ok THEN [Ev("Out") EXCEPT !.svc = "RoutingInd", !.pid = pid] ELSE Ev("OutErr")

SendTx(g) ==
  /\ snd[g].st = "locking" /\ mu.h = "none" /\ Len(muq) > 0 /\ Head(muq) = g
  /\ muq' = Tail(muq)
  /\ \E ok \in IF nfail < FailBudget /\ sockOpen THEN {TRUE, FALSE} ELSE {sockOpen} :
       /\ Transmit(snd[g].pid, ok)
       /\ snd' = [snd EXCEPT ![g].st = IF ok THEN "ok" ELSE "err"]
       /\ nfail' = IF ok \/ ~sockOpen THEN nfail ELSE nfail + 1
       /\ act' = Act(IF ok THEN "internal" ELSE "failsend", g, 0)
  /\ UNCHANGED <<now, srv, workers, rxq, sockOpen, inbOpen, starting, queued, reader, got, delivered, nsend, nind, nbusy, nlost, tfire>>

SendReturn(g) ==
  /\ snd[g].st \in {"ok", "err"}
  /\ ev' = [Ev("SendRet") EXCEPT !.g = g, !.pid = snd[g].pid, !.s = IF snd[g].st = "ok" THEN "ok" ELSE "sockerr"]
  /\ snd' = [snd EXCEPT ![g] = [st |-> "idle", pid |-> -1]]
  /\ act' = Act("internal", g, 0)
  /\ UNCHANGED <<now, mu, muq, srv, workers, retained, rxq, sockOpen, inbOpen, starting, queued, reader, got, delivered, nsend, nind, nbusy, nlost, nfail, tfire>>

\* the deferred goroutine: sleep(pause) unless the send failed, then Unlock; also the busy timer
Unlock ==
  /\ mu.h \in {"pause", "unlock", "busy"} /\ mu.until <= now
  /\ mu' = Free
  /\ ev' = NoEv /\ act' = Act("timer", 0, 0) /\ tfire' = now
  /\ UNCHANGED <<now, muq, snd, srv, workers, retained, rxq, sockOpen, inbOpen, starting, queued, reader, got, delivered, nsend, nind, nbusy, nlost, nfail>>

-----------------------------------------------------------------------------
(* serve loop *)

Push(pid) ==
  IF reader = "waiting" /\ inbOpen
  THEN /\ got' = pid /\ reader' = "got" /\ UNCHANGED <<starting, queued>> /\ ev' = NoEv
  ELSE /\ starting' = starting \cup {pid} /\ UNCHANGED <<got, reader, queued>>
       /\ ev' = [Ev("Hook") EXCEPT !.s = "router-parked"]

SrvTake ==
  /\ srv.pc = "idle" /\ Len(rxq) > 0
  /\ LET f == Head(rxq) IN
     /\ rxq' = Tail(rxq)
     /\ ev' = [Ev("In") EXCEPT !.svc = f.svc, !.pid = f.pid, !.a = f.a, !.seq = f.c]
     /\ CASE f.svc = "RoutingInd" -> srv' = [pc |-> "push", a |-> f.pid, c |-> -1] /\ UNCHANGED muq
          [] f.svc = "RoutingBusy" -> srv' = [pc |-> "busyw", a |-> f.a, c |-> f.c] /\ UNCHANGED muq
          [] f.svc = "RoutingLost" -> srv' = [pc |-> "lost", a |-> f.a, c |-> -1] /\ muq' = Append(muq, SrvL)
  \* "enq": a goroutine joins the queue for the send mutex. Two of them at one instant race in the Go runtime.
  /\ act' = IF Head(rxq).svc = "RoutingLost" THEN EnqAct ELSE Act("take", 0, 0)
  /\ UNCHANGED <<now, mu, snd, workers, retained, sockOpen, inbOpen, starting, queued, reader, got, delivered, nsend, nind, nbusy, nlost, nfail, tfire>>

SrvPush ==
  /\ srv.pc = "push"
  /\ Push(srv.a)
  /\ srv' = [pc |-> "idle", a |-> -1, c |-> -1]
  /\ act' = Act("internal", 0, 0)
  /\ UNCHANGED <<now, mu, muq, snd, workers, retained, rxq, sockOpen, inbOpen, delivered, nsend, nind, nbusy, nlost, nfail, tfire>>

SrvBusyWait ==
  /\ srv.pc = "busyw"
  /\ srv' = [srv EXCEPT !.pc = "busy"] /\ muq' = Append(muq, SrvB)
  /\ ev' = [Ev("Hook") EXCEPT !.s = "busy-wait"] /\ act' = EnqAct
  /\ UNCHANGED <<now, mu, snd, workers, retained, rxq, sockOpen, inbOpen, starting, queued, reader, got, delivered, nsend, nind, nbusy, nlost, nfail, tfire>>

\* sendMu.Lock(); waitTime = min(WaitTime + random, cap); AfterFunc(waitTime, Unlock)
SrvBusyAcquire ==
  /\ srv.pc = "busy" /\ mu.h = "none" /\ Len(muq) > 0 /\ Head(muq) = SrvB
  /\ muq' = Tail(muq)
  /\ \E w \in IF srv.c = 0 THEN {Min(srv.a, Cap), Cap} ELSE {Min(srv.a, Cap)} :
       /\ mu' = [h |-> "busy", until |-> now + w]
       /\ ev' = [Ev("Hook") EXCEPT !.s = "busy-locked", !.a = w * Unit]
  /\ srv' = [pc |-> "idle", a |-> -1, c |-> -1]
  /\ act' = Act("internal", 0, 0)
  /\ UNCHANGED <<now, snd, workers, retained, rxq, sockOpen, inbOpen, starting, queued, reader, got, delivered, nsend, nind, nbusy, nlost, nfail, tfire>>

\* resendLost: lock; pop the last min(count, len) messages; go sendMultiple; unlock
SrvLostAcquire ==
  /\ srv.pc = "lost" /\ mu.h = "none" /\ Len(muq) > 0 /\ Head(muq) = SrvL
  /\ muq' = Tail(muq)
  /\ LET k == Min(srv.a, Len(retained)) IN
     /\ retained' = SubSeq(retained, 1, Len(retained) - k)
     /\ workers' = IF k > 0 THEN Append(workers, [todo |-> LastN(retained, k), st |-> "ready"]) ELSE workers
  /\ ev' = [Ev("Hook") EXCEPT !.s = "lost-locked", !.a = srv.a]
  /\ srv' = [pc |-> "idle", a |-> -1, c |-> -1]
  /\ act' = Act("internal", 0, 0)
  /\ UNCHANGED <<now, mu, snd, rxq, sockOpen, inbOpen, starting, queued, reader, got, delivered, nsend, nind, nbusy, nlost, nfail, tfire>>

\* sendMultiple: router.Send(message) for each, errors ignored
WorkerLock(i) ==
  /\ workers[i].st = "ready" /\ Len(workers[i].todo) > 0
  /\ workers' = [workers EXCEPT ![i].st = "locking"]
  /\ muq' = Append(muq, Wk(i))
  /\ ev' = NoEv /\ act' = EnqAct
  /\ UNCHANGED <<now, mu, snd, srv, retained, rxq, sockOpen, inbOpen, starting, queued, reader, got, delivered, nsend, nind, nbusy, nlost, nfail, tfire>>

WorkerTx(i) ==
  /\ workers[i].st = "locking" /\ mu.h = "none" /\ Len(muq) > 0 /\ Head(muq) = Wk(i)
  /\ muq' = Tail(muq)
  /\ Transmit(Head(workers[i].todo), sockOpen)
  /\ workers' = [workers EXCEPT ![i] = [todo |-> Tail(workers[i].todo), st |-> "ready"]]
  /\ act' = Act("internal", 0, 0)
  /\ UNCHANGED <<now, snd, srv, rxq, sockOpen, inbOpen, starting, queued, reader, got, delivered, nsend, nind, nbusy, nlost, nfail, tfire>>

SrvExit ==
  /\ srv.pc = "idle" /\ ~sockOpen /\ Len(rxq) = 0
  /\ srv' = [pc |-> "gone", a |-> -1, c |-> -1]
  /\ inbOpen' = FALSE /\ queued' = << >> /\ starting' = {}
  /\ reader' = IF reader = "waiting" THEN "idle" ELSE reader
  /\ ev' = NoEv /\ act' = Act("internal", 0, 0)
  /\ UNCHANGED <<now, mu, muq, snd, workers, retained, rxq, sockOpen, got, delivered, nsend, nind, nbusy, nlost, nfail, tfire>>

-----------------------------------------------------------------------------
(* inbound hand-off *)

ParkReach ==
  /\ \E p \in starting :
       /\ starting' = starting \ {p}
       /\ IF reader = "waiting" THEN /\ got' = p /\ reader' = "got" /\ UNCHANGED queued
          ELSE /\ queued' = Append(queued, p) /\ UNCHANGED <<got, reader>>
  \* several helper goroutines on their way to the channel: which one gets there first is the runtime's choice
  /\ ev' = NoEv /\ act' = Act(IF Cardinality(starting) > 1 THEN "choice" ELSE "internal", 0, 0)
  /\ UNCHANGED <<now, mu, muq, snd, srv, workers, retained, rxq, sockOpen, inbOpen, delivered, nsend, nind, nbusy, nlost, nfail, tfire>>

AppRecv ==
  /\ reader = "idle" /\ inbOpen
  /\ IF Len(queued) > 0 THEN /\ got' = Head(queued) /\ queued' = Tail(queued) /\ reader' = "got"
     ELSE /\ reader' = "waiting" /\ UNCHANGED <<got, queued>>
  /\ ev' = NoEv /\ act' = Act("recv", 0, 0)
  /\ UNCHANGED <<now, mu, muq, snd, srv, workers, retained, rxq, sockOpen, inbOpen, starting, delivered, nsend, nind, nbusy, nlost, nfail, tfire>>

AppRecvRet ==
  /\ reader = "got"
  /\ delivered' = Append(delivered, got) /\ reader' = "idle" /\ got' = -1
  /\ ev' = [Ev("Recv") EXCEPT !.pid = got] /\ act' = Act("internal", 0, 0)
  /\ UNCHANGED <<now, mu, muq, snd, srv, workers, retained, rxq, sockOpen, inbOpen, starting, queued, nsend, nind, nbusy, nlost, nfail, tfire>>

-----------------------------------------------------------------------------
(* environment *)

Arrive ==
  /\ sockOpen /\ Len(rxq) < 3
  /\ \/ /\ nind < MaxInd /\ nind' = nind + 1 /\ UNCHANGED <<nbusy, nlost>>
        /\ rxq' = Append(rxq, [svc |-> "RoutingInd", pid |-> 500 + nind, a |-> -1, c |-> -1])
        /\ act' = Act("ind", 500 + nind, 0)
     \/ /\ nbusy < MaxBusy /\ nbusy' = nbusy + 1 /\ UNCHANGED <<nind, nlost>>
        /\ \E w \in Waits, c \in Ctrls :
             /\ rxq' = Append(rxq, [svc |-> "RoutingBusy", pid |-> -1, a |-> w, c |-> c])
             /\ act' = Act("busy", w, c)
     \/ /\ nlost < MaxLost /\ nlost' = nlost + 1 /\ UNCHANGED <<nind, nbusy>>
        /\ \E k \in Counts :
             /\ rxq' = Append(rxq, [svc |-> "RoutingLost", pid |-> -1, a |-> k, c |-> -1])
             /\ act' = Act("lost", k, 0)
  /\ ev' = NoEv
  /\ UNCHANGED <<now, mu, muq, snd, srv, workers, retained, sockOpen, inbOpen, starting, queued, reader, got, delivered, nsend, nfail, tfire>>

CloseSock ==
  /\ EnableClose /\ sockOpen
  /\ sockOpen' = FALSE
  /\ rxq' = << >>       \* frames the serve loop had not taken yet are dropped with the socket (its receiver ends)
  /\ ev' = Ev("SockClose") /\ act' = Act("close", 0, 0)
  /\ UNCHANGED <<now, mu, muq, snd, srv, workers, retained, inbOpen, starting, queued, reader, got, delivered, nsend, nind, nbusy, nlost, nfail, tfire>>

ClientCanStep ==
  \/ srv.pc \in {"push", "busyw"} \/ (srv.pc = "idle" /\ Len(rxq) > 0) \/ (srv.pc = "idle" /\ ~sockOpen /\ Len(rxq) = 0)
  \/ mu.h \in {"pause", "unlock", "busy"} /\ mu.until <= now
  \/ mu.h = "none" /\ Len(muq) > 0
  \/ \E g \in Senders : snd[g].st \in {"ok", "err"}
  \/ \E i \in 1..Len(workers) : workers[i].st = "ready" /\ Len(workers[i].todo) > 0
  \/ starting # {} \/ reader = "got"

Tick ==
  /\ now < MaxNow /\ ~ClientCanStep
  /\ now' = now + 1
  /\ ev' = NoEv /\ act' = Act("tick", 1, 0)
  /\ UNCHANGED <<mu, muq, snd, srv, workers, retained, rxq, sockOpen, inbOpen, starting, queued, reader, got, delivered, nsend, nind, nbusy, nlost, nfail, tfire>>

\* Urgent (conformance generation): the environment moves only when the client is quiet, and only at instants at
\* which no timer of the client fired. The router can only be replayed in real time (its send mutex is held across
\* timers); with this discipline the order of a behaviour's events does not depend on which of "timer" and
\* "environment step" comes first at an instant, so the replay needs instants to be apart, not simultaneous.
EnvOK == ~Urgent \/ (~ClientCanStep /\ tfire < now)

Next ==
  \/ \E g \in Senders : (EnvOK /\ AppSend(g)) \/ SendTx(g) \/ SendReturn(g)
  \/ Unlock \/ SrvTake \/ SrvPush \/ SrvBusyWait \/ SrvBusyAcquire \/ SrvLostAcquire \/ SrvExit
  \/ \E i \in 1..Len(workers) : WorkerLock(i)
  \/ \E i \in 1..Len(workers) : WorkerTx(i)
  \/ ParkReach \/ (EnvOK /\ AppRecv) \/ AppRecvRet
  \/ (EnvOK /\ (Arrive \/ CloseSock)) \/ Tick

Spec == Init /\ [][Next]_vars

-----------------------------------------------------------------------------
(* Properties on the specification *)

\* C14: the history never exceeds the configured size
Bounded == Len(retained) <= Retain
\* C14: nothing is delivered twice
NoDupDelivery == \A i, j \in 1..Len(delivered) : i # j => delivered[i] # delivered[j]
\* C13/C14: the lock discipline - while the serve goroutine's back-off holds the lock nobody transmits
LockSane == mu.h = "busy" => \A g \in Senders : snd[g].st # "tx"
\* no deadlock of the send path: whenever someone waits for the lock, the lock is held by a timer-bound holder
NoStuck == (Len(muq) > 0 /\ mu.h # "none") => mu.h \in {"pause", "unlock", "busy"}
=============================================================================
