#!/bin/sh
# usage: simobs_bg.sh <cfg> <num> <depth> <seed> : long simulation of MC_Tun (spec x observers); prints a counterexample summary
d=$(mktemp -d /tmp/simobs.XXXXXX); cp spec/*.tla spec/*.cfg $d && cd $d && timeout ${TMO:-1500} tlc -workers ${W:-8} -simulate num=$2 -depth $3 -seed $4 -metadir $d/md -config $1 MC_Tun.tla 2>&1 | grep -v "^Semantic\|^Linting\|^Parsing" > out.txt
python3 /verif/lib/tlctrace.py out.txt | grep -v 'ev "none"' | grep -v "GwConn" | tail -40; grep "Error\|states generated\|Finished" out.txt | head -5; rm -rf $d
