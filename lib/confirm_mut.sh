#!/bin/bash
# usage: confirm_mut.sh <ID> <k> : confirms a seeded defect in a scratch worktree and stores it under /verif/seeded/<ID>-<k>/
id=$1; k=$2; src=/tmp/mut/out/$id/$k; wt=/tmp/mut/confirm_${id}_$k
export GOFLAGS=-mod=mod GOPROXY=off GOSUMDB=off
p=$src/patch.diff; [ -f $src/patch.ported.diff ] && p=$src/patch.ported.diff
meta=$src/meta.json
demo_path=$(python3 -c "import json;print(json.load(open('$meta')).get('demo_path_in_tree','knx/demo_test.go').split()[0])")
demo_cmd=$(python3 -c "import json;print(json.load(open('$meta')).get('demo_cmd',''))")
demo_file=$(ls $src/*_test.go 2>/dev/null | head -1)
rm -rf $wt; git -C /repo worktree add -q --detach $wt HEAD || exit 3
cd $wt
res() { echo "CONFIRM $id/$k: $*"; }
run_demo() { # run the demo test; prints PASS/FAIL
  name=$(echo "$demo_cmd" | grep -o '\-run [A-Za-z0-9_^$|]*' | head -1 | awk '{print $2}')   # the author's -run pattern (may cover several tests)
  [ -z "$name" ] && name=$(grep -o 'func Test[A-Za-z0-9_]*' $demo_path | head -1 | sed 's/func //')
  pkg=./$(dirname $demo_path)/
  tags=""; grep -q 'go:build verif' $demo_path && tags="-tags verif"; echo "$demo_cmd" | grep -q -- '-tags verif' && tags="-tags verif"
  if timeout 300 go test $tags -vet=off -count=1 -run "$name" $pkg >/tmp/mut/demo_out.txt 2>&1; then echo PASS; else echo FAIL; fi
}
if ! git apply $p 2>/dev/null && ! patch -p1 -s --fuzz=3 --no-backup-if-mismatch < $p >/dev/null 2>&1; then res "patch does not apply"; cd /; git -C /repo worktree remove --force $wt; exit 1; fi
if ! go build ./... 2>/dev/null; then res "does not build"; cd /; git -C /repo worktree remove --force $wt; exit 1; fi
suite=$(go test -vet=off -count=1 ./... 2>&1 | grep -c "^FAIL\|^---  *FAIL")
cp $demo_file $demo_path
with=$(run_demo)
git checkout -q -- . ; # revert the mutant, keep the demo
without=$(run_demo)
rm -f $demo_path
res "suite_failures=$suite demo_with_patch=$with demo_without_patch=$without"
if [ "$suite" = "0" ] && [ "$with" = "FAIL" ] && [ "$without" = "PASS" ]; then
  d=/verif/seeded/$id-$k; mkdir -p $d; cp $p $d/patch.diff; cp $demo_file $d/$(basename $demo_file)
  python3 - "$meta" "$d/meta.json" "$id" <<PY
import json,sys
m=json.load(open(sys.argv[1]))
m['property']=sys.argv[3]
m['confirmed']={'build':'go build ./... ok','existing_suite':'go test -vet=off -count=1 ./... passes with the patch','demo_with_patch':'FAIL','demo_without_patch':'PASS','base':'HEAD of /repo at confirmation (patch ported onto the repaired tree where the original no longer applied)'}
json.dump(m,open(sys.argv[2],'w'),indent=1)
PY
fi
cd /; git -C /repo worktree remove --force $wt
