"""Checks of the router-client properties (C13, C14 and the router half of C17)."""
import json, os, time, re
import vlib, rtrgen, rtrsched, tunnel_check

ASSUME = {
    'C13': ['scaled real time on the in-memory socket: lower time bounds (pause, back-off window) are exact up to a 300 us clock/scheduling slack, upper bounds are not judged',
            'the clause "only goroutines already inside Send may still transmit" holds on the FIFO model of the mutex (checked by TLC) but Go\'s mutex lets a newly arriving goroutine barge once; on real traces it is a drift note, not a verdict',
            'trace points busy-wait / busy-locked (build tag verif) give the linearization points of the back-off'],
    'C14': ['the history the resend is compared with is reconstructed by the observer from the successful transmissions (Out events) and the lost-locked trace point',
            'resend order is judged only while a single resend is in progress, as the property states'],
}


def schedules(pid, tier, seed):
    g = rtrgen.RGen(seed * 104729 + int(pid[1:]))
    q = tier == 'quick'
    runs = []
    if pid == 'C13':
        for i in range(48 if q else 320):
            runs.append(g.pace(i + 1, group=(i % 6 == 5)))
        for i in range(6 if q else 36):   # a busy indication in the middle of a lost-resend
            runs.append(g.busy_in_resend(1000 + i))
    elif pid == 'C14':
        for i in range(64 if q else 400):
            runs.append(g.history(i + 1, group=(i % 6 == 5), n=50 if i % 10 else 300))
    elif pid == 'C17':
        for i in range(48 if q else 300):
            runs.append(g.burst(i + 1, 2 + (i * 5) % 63, ['ready', 'stalled', 'intermittent', 'blocked'][i % 4], group=(i % 8 == 7)))
    return runs


def run_model(work, pid, tier, seed):
    # MC_Rtr_q is explored completely (0.9 M states, ~14 s: deterministic counts); the thorough tier adds two larger complete
    # configurations and the time-boxed big one
    cfgs = [('MC_Rtr_q.cfg', 600)] if tier == 'quick' else [('MC_Rtr_q.cfg', 600), ('MC_Rtr_m1.cfg', 900), ('MC_Rtr_m2.cfg', 900), ('MC_Rtr_t.cfg', 150)]
    notes, detail = [], []
    st = gen = 0
    for c, budget in cfgs:
        rc, out = vlib.tlc(work, 'Router', cfg=c, workers=vlib.NCPU, timeout=budget + 120, name='mc_rtr_' + c,
                           env_extra={'JAVA_TOOL_OPTIONS': '-Dtlc2.TLC.stopAfter=%d' % budget})
        if 'Error:' in out:
            notes.append('model checking Router.tla (%s): TLC error or invariant violated by the SPECIFICATION :: ' % c + out[-300:])
            print('MODEL-NOTE: ' + notes[-1][:120])
        s1, g1 = vlib.tlc_states(out)
        left = re.findall(r'(\d+) states left on queue', out)
        detail.append(dict(cfg=c, distinct_states=s1, states_generated=g1, complete=bool(left) and int(left[-1]) == 0 and 'Error:' not in out))
        st += s1
        gen += g1
    n = 1500 if tier == 'quick' else 30000
    rc, out2 = vlib.tlc(work, 'MC_Rtr', cfg='SIM_Rtr.cfg', workers=vlib.NCPU, timeout=900, name='sim_rtr',
                        extra=['-simulate', 'num=%d' % max(1, n // vlib.NCPU), '-depth', '120', '-seed', str(seed)])
    if 'is violated' in out2 or 'Error:' in out2:
        notes.append('Router.tla x RouterObs: an observer flags a behaviour of the SPECIFICATION, or TLC failed :: ' + out2[-300:])
        print('MODEL-NOTE: ' + notes[-1][:120])
    m = re.search(r'The number of states generated: (\d+)', out2)
    sims = int(m.group(1)) if m else 0
    for d in detail:
        d['notes'] = notes
    return st, gen, detail, sims


REQUIRED = ['SendTx', 'SendReturn', 'Unlock', 'SrvTake', 'SrvPush', 'SrvBusyWait', 'SrvBusyAcquire', 'SrvLostAcquire', 'WorkerLock', 'WorkerTx',
            'SrvExit', 'ParkReach', 'AppRecvRet']
COV_RE = re.compile(r'^<(\w+) line \d+, col \d+ to line \d+, col \d+ of module Router>: (\d+):(\d+)', re.M)


def run_coverage(work):
    """TLC -coverage on the quick configuration: every action of Router.tla the properties rest on must have been taken."""
    rc, out = vlib.tlc(work, 'Router', cfg='MC_Rtr_q.cfg', workers=vlib.NCPU, timeout=900, name='cov_rtr', extra=['-coverage', '1'])
    taken = {}
    for name, distinct, gen in COV_RE.findall(out):
        if name not in ('Init', 'Next', 'Next0'):
            taken[name] = max(taken.get(name, 0), int(gen))
    # disjuncts TLC cannot name (quantified over a state-dependent set, or guarded by EnvOK) are reported as
    # "Next (line col line col)": resolved through the text of that line when it mentions exactly one action
    src = open(os.path.join(vlib.SPEC, 'Router.tla')).read().split('\n')
    for line, gen in re.findall(r'^<Next line \d+, col \d+ to line \d+, col \d+ of module Router \((\d+) \d+ \d+ \d+\)>: \d+:(\d+)', out, re.M):
        names = [a for a in REQUIRED + ['AppSend', 'AppRecv', 'Arrive', 'CloseSock'] if re.search(r'\b%s\b' % a, src[int(line) - 1])]
        if len(names) == 1:
            taken[names[0]] = max(taken.get(names[0], 0), int(gen))
    never = [a for a in REQUIRED if taken.get(a, 0) == 0]
    if never:
        print('MODEL-NOTE: vacuity: actions %s are never taken in MC_Rtr_q.cfg' % never)
    return dict(action_states_generated=taken, required_actions=REQUIRED, required_actions_never_taken=never)


CONF = {}


def run_router(w, pid, tier, seed, binary):
    runs = schedules(pid, tier, seed)
    # behaviours TLC generated from Router.tla (conformance configuration), replayed in real time: judged by the
    # observers like every other run, and compared event by event with what the specification predicted
    conf = rtrsched.generate(w, 'CONF_Rtr.cfg', 120 if tier == 'quick' else 1000, 100, seed + 1, 200000, 'rtlc:CONF_Rtr.cfg')
    res = tunnel_check.drive_and_judge(w, binary, runs + conf, 'real', 'rtr', test='TestRouterSchedules', tracemod='Trace_Rtr')
    eq, cmp_, nev, diffs = rtrsched.conformance(conf, res['trace_files'])
    for d in diffs[:3]:
        print('SPEC-DRIFT property=%s run=%d tick=%d predicted=%s real=%s' % (pid, d['run'], d['tick'], d['predicted'], d['real']))
    CONF.clear()
    CONF.update(behaviours_generated=len(conf), behaviours_compared=cmp_, real_client_matched_specification=eq, predicted_events_compared=nev,
                not_compared='runs in which the process was held up for more than %d us (watchdog) or a step was late' % rtrsched.STALL_MAX,
                first_differences=diffs)
    return runs + conf, res


def check(pid, tier):
    t0 = time.time()
    seed = vlib.seed()
    w = vlib.Work(pid)
    try:
        known = vlib.load_known()
        states, trans, mcdetail, sims = run_model(w, pid, tier, seed)
        coverage = run_coverage(w) if tier == 'thorough' else None
        binary = vlib.build_test(w, './drive/', w.path('drive.test'))
        runs, res = run_router(w, pid, tier, seed, binary)
        viol, kf = tunnel_check.judge(pid, res, known)
        for f in known.get('findings', []):
            if f['property'] == pid:
                print('KNOWN-FINDING: property=%s %s witnessed=%d %s' % (pid, f['id'], len(kf.get(f['tag'], [])), f['what']))
        rc = 0
        if viol:
            tag, b = viol[0]
            replay = vlib.save_replay(pid, '%s-seed%d-run%d' % (tag.replace('.', '_'), seed, b['run']), tunnel_check.witness(b))
            print('VIOLATION property=%s replay=%s' % (pid, replay))
            print('  clauses flagged: %s' % sorted(set(t for t, _ in viol)))
            rc = 1
        distinct = len(set(json.dumps(r['steps'], sort_keys=True) for r in runs if len(r['steps']) > 2))
        notes = {}
        for n in res['notes']:
            for t in n['tags']:
                notes[t] = notes.get(t, 0) + 1
        cov = dict(states=states + sims, transitions=trans, traces_validated_against_impl=res['validated'],
                   samples=[tunnel_check.sample_of(r) for r in runs[:2]], evaluations=len(runs), distinct_nontrivial=distinct,
                   rule='one evaluation = one schedule executed against the real knx.Router (scaled real time) and validated by TLC against the RouterObs observers',
                   model_checking=mcdetail, action_coverage=coverage, spec_x_observer_states=sims, trace_events=res['events'], spec_drift=notes, conformance=dict(CONF), tlc_generated_behaviours=CONF.get('behaviours_generated', 0),
                   known_findings={t: len(b) for t, b in kf.items()}, exhaustive=False)
        vlib.write_evidence(pid, tier, 'model_checking', cov, ASSUME[pid], time.time() - t0, len(viol))
        print('%s %s: %d schedules on the real router client (%d TLC-generated), %d trace events, model: %d states; '
              'specification conformance %d/%d behaviours; %s' % (
                  pid, tier, len(runs), CONF.get('behaviours_generated', 0), res['events'], states + sims,
                  CONF.get('real_client_matched_specification', 0), CONF.get('behaviours_compared', 0), 'VIOLATIONS' if viol else 'held'))
        return rc
    finally:
        w.close()
