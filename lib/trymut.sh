#!/bin/sh
# usage: trymut.sh <patch> <cmd...>   applies the patch to /repo, runs cmd, reverts.
p="$1"; shift
cd /repo || exit 3
git diff --quiet || { echo "repo dirty"; exit 3; }
git apply "$p" 2>/dev/null || patch -p1 -s --fuzz=3 --no-backup-if-mismatch < "$p" >/dev/null 2>&1 || { echo "PATCH FAILED $p"; git reset -q; git checkout -- .; find /repo -name '*.rej' -delete -o -name '*.orig' -delete; exit 3; }
go build ./... 2>/dev/null || { echo "PATCH FAILED (does not build) $p"; git checkout -- .; exit 3; }
(cd /verif && "$@"); rc=$?
cd /repo && git checkout -- . && git status --short | grep -v '^??' ; find /repo -name '*.orig' -delete -o -name '*.rej' -delete
exit $rc
