#!/bin/sh
# usage: mutrun.sh <tier> <ids...> : runs each mutant /tmp/mut/out/<ID>/<k>/patch.diff against check <ID>
tier=$1; shift
for id in "$@"; do for k in ${KS:-1 2 3}; do
  p=/tmp/mut/out/$id/$k/patch.diff; [ -f /tmp/mut/out/$id/$k/patch.ported.diff ] && p=/tmp/mut/out/$id/$k/patch.ported.diff; [ -f $p ] || continue
  out=$(/verif/lib/trymut.sh $p bin/check $id $tier 2>&1); rc=$?
  echo "MUT $id/$k rc=$rc $(echo "$out" | grep -o 'clauses flagged.*\|INCONCLUSIVE.*\|PATCH FAILED.*' | head -1 | cut -c1-200)"
done; done
