#!/bin/bash
# usage: pmut.sh <tier> <ID> <k> : tries seeded defect /tmp/mut/out/<ID>/<k>/patch.diff in a PRIVATE scratch worktree of /repo
# (VERIF_REPO), so several can run in parallel and /repo itself is never touched. Evidence goes to a throw-away directory.
tier=$1; id=$2; k=$3; p=/tmp/mut/out/$id/$k/patch.diff; [ -f /tmp/mut/out/$id/$k/patch.ported.diff ] && p=/tmp/mut/out/$id/$k/patch.ported.diff
wt=/tmp/mut/pm_${id}_$k; rm -rf $wt; git -C /repo worktree add -q --detach $wt HEAD || exit 3
cd $wt && (git apply $p 2>/dev/null || patch -p1 -s --fuzz=3 --no-backup-if-mismatch < $p >/dev/null 2>&1) || { echo "MUT $id/$k PATCH FAILED"; cd /; git -C /repo worktree remove --force $wt; exit 3; }
GOFLAGS=-mod=mod GOPROXY=off GOSUMDB=off go build ./... 2>/dev/null || { echo "MUT $id/$k does not build"; cd /; git -C /repo worktree remove --force $wt; exit 3; }
cd /verif; out=$(VERIF_REPO=$wt VERIF_EVIDENCE_DIR=/tmp/mut/ev_${id}_$k bin/check $id $tier 2>&1); rc=$?
echo "MUT $id/$k rc=$rc $(echo "$out" | grep -o 'clauses flagged.*\|INCONCLUSIVE.*' | head -1 | cut -c1-180)"
cd /; git -C /repo worktree remove --force $wt; rm -rf /tmp/mut/ev_${id}_$k
