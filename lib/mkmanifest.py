#!/usr/bin/env python3
"""Regenerates MANIFEST.json from the table below (the single place where checks are registered)."""
import json, os, subprocess
V = os.path.dirname(os.path.dirname(os.path.abspath(__file__)))
props = [json.loads(l) for l in open(os.path.join(V, 'properties.jsonl'))]
hook_commits = subprocess.run(['git', '-C', '/repo', 'log', '--format=%h %s'], capture_output=True, text=True).stdout.splitlines()
hooks = [l.split()[0] for l in hook_commits if l.split(' ', 1)[1].startswith('verif:')]

TUN = ('model checking (TLC, complete in the quick configurations) of an implementation-shaped TLA+ specification + trace validation of the real client against '
       'TLA+ property observers + event-by-event replay conformance of TLC-generated behaviours (advisory SPEC-DRIFT)')
CLAIMED = {
 'C03': dict(tech=TUN + '; schedules from TLC simulation of Tunnel.tla, seeded walks (virtual time, synctest) and multi-sender runs in scaled real time',
   text='Tunnel.tla (sender, ack relays, sequence mutex as FIFO queue, reconnect) is model-checked exhaustively in small configurations incl. the sequence wrap (OneInFlight, MutexHeld, BusNoDup) and simulated against the TunObs observers; every behaviour projected onto environment choices, plus seeded fault walks incl. the 255->0 wrap, TCP mode and 2..8 concurrent senders, is executed on the real knx.Tunnel over an in-memory socket and each recorded trace is judged by TLC with the C03 clauses (OneInFlight, RetxIdentical, RetxPeriod, AckedConsecutive, SuccessNeedsAck, ErrAckFails, ReturnDeadline, TcpOneShot); matching acknowledgements with every status code 1..255 (family ack-status; a run in which the client kills the process is ClientCrashed for every tunnel property). Bounded exploration, not a proof.',
   note='trusted: the Go simulation of socket/network/gateway (its events are part of the judged trace), the event recorder linearization (In recorded atomically with the hand-off, Out inside the socket Send), TLC. Multi-sender contention only in real time (lower time bounds exact, upper bounds lenient).'),
 'C04': dict(tech=TUN, text='Receiver clauses (DeliverIff, AckExact/AckMissing/AckSpurious, NoDupDelivery, NothingLost, TCP variant) judged by TLC on traces of the real client for adversarial request streams (own/foreign channel, seq -2..+3 and +128, up to 1000 requests across the wrap, reader stalls, reconnects), plus TLC-generated behaviours with forged requests (AdvReq).',
   note='same trusted base as C03; "accepted" is observed at the socket hand-off (In event), delivery at the application receive.'),
 'C05': dict(tech=TUN, text='The composition client x lossy/duplicating/reordering network x rule-following gateway is model-checked (BusNoDup) and simulated with the observers; on the real client the gateway/bus events are part of the trace and TLC checks BusExactlyOnce/BusOrder/BusTwice/AppExactlyOnce/AppOrder. The known finding C05-F1 is matched by a witness pattern in the observer.',
   note='the simulated gateway follows the tunnelling rules; datagrams do not outlive a connection; modulus 4 in the exhaustive model, 256 on the real client (wrap prefixes).'),
 'C09': dict(tech=TUN, text='Heartbeat period/channel/resend, failure => reconnect, DiscReq handling, epoch freshness (channel and both numberings), termination causes and inertness of foreign-channel frames, judged exactly in virtual time on seeded gateway-fault walks and TLC-generated behaviours (GwFaultBudget: silence, error status, foreign channel, busy/refused connects).',
   note='with several overlapping heartbeat workers (H < T) the reconnect-cause clause is lenient; see DESIGN.md.'),
 'C10': dict(tech=TUN + '; goroutine leaks via synctest deadlock detection and census; race detector on the same schedules in the thorough tier',
   text='Close injected at a random position of every scenario family (sender, receiver, link, heartbeat), 1..4 concurrent closers, socket failures, slow DiscReq writes: CloseBounded, OneDisc, InboundClosedAfterClose, SendAfterCloseFails, NoLeak, NoPanic (a crashed driver run becomes a Crash event), NoRace (thorough; reports classified, known finding C10-F1 = the close/send pattern on the helper channels).',
   note='the data-race clause is decided by the Go race detector, not by TLC; deadlocks that involve the client\'s own locks are only visible in the scaled real-time runs (virtual time cannot advance through a lock wait: such runs are counted as stuck, never judged).'),
 'C13': dict(tech='model checking (TLC) of Router.tla + trace validation of the real router client against the RouterObs observers (scaled real time) + replay conformance of TLC-generated behaviours',
   text='Pace (exact lower bound between successful transmissions), BusyWindow (no transmission inside the back-off window measured from the busy-locked trace point), BusyWait (announced wait, cap, control), BusyTaken, Resumes; OnePerWaiter is checked on the FIFO model and reported as drift on real traces.',
   note='real time: 300 us slack on lower bounds; needs the build-tag trace points busy-wait/busy-locked.'),
 'C14': dict(tech='model checking (TLC) of Router.tla + trace validation of the real router client against the RouterObs observers (scaled real time) + replay conformance of TLC-generated behaviours',
   text='ResendSpurious/ResendOrder/ResendMissing against the observer-reconstructed bounded history (lost counts 0..65535, retain 0..64, failing sends), DeliveredOnce, CloseClosesInbound, Resumes (no deadlock).',
   note='needs the lost-locked trace point; real time.'),
 'C17': dict(tech=TUN + ' (tunnel in virtual time, router in real time)',
   text='InOrder judged on bursts of 2..64 accepted telegrams x consumer behaviours (always ready, stalled, intermittent, stalls longer than the resend interval) through Tunnel, GroupTunnel, Router and GroupRouter. Known findings C17-F1/F2 (overflow goroutines overtaken) are matched by witness patterns that use the parked trace points; any other reordering is a violation.',
   note='in real time every overtaking of an overflow delivery is attributed to the known finding; a telegram handed over twice or never is not (C17.Sequence). Defects below the injected socket interface are the socket-level checks\' (C16, C01).'),
}
COD = 'TLA+ reference specification evaluated by TLC over input/output records logged from the real codec (record validation); theorems of the reference checked by TLC over finite domains'
CLAIMED.update({
 'C01': dict(tech=COD, text='Every truncation of valid frames of all 13 encodable + 3 decode-only services and 9 cEMI payload kinds, every octet replaced by the boundary alphabet {0,1,2,3,4,6,8,rem-1,rem,rem+1,54,255} (embedded lengths disagreeing with the bytes present), description blocks of length 0/1/3/200, and seeded random strings up to 1024 bytes; each decoded from an exact-capacity slice and as prefix of a 0xAA-filled and of a valid-frame-filled larger buffer, in a goroutine with panic capture and a 3 s watchdog. The input buffer is overwritten (differently per variant) before the decoded value is rendered, as a receiver that reuses its buffer does. TLC evaluates NoPanic, Terminates, ConsumedWithin, InputOnly on every record.',
   note='the socket-receiver clause (a malformed frame does not prevent later frames) is exercised with the C16 loopback check, not here; inputs are enumerated structurally, not all 256^n strings.'),
 'C02': dict(tech=COD, text='Every service type x every cEMI payload kind over boundary and seeded field values: encode, decode, project both onto the vocabulary of spec/Knxnet.tla; TLC checks decoded = canonical(input) (RoundTrip) and decode(encode(decoded)) = decoded (Stable).',
   note='the Go<->record projection (table-driven glue in harness/codec/knxnet_test.go) is trusted; "accepts the whole encoding" is read as "decodes without error".'),
 'C11': dict(tech=COD, text='All 2^16 control-octet pairs x both unit kinds, all APCI x sequence x numbered combinations, payload lengths 0..254, info lengths 0..255, corner + seeded addresses: cemi.Pack output must equal the reference layout EncLData byte for byte and cemi.Unpack must return Canon(fields); the helper functions over their complete 8-bit domains against the reference tables. TLC also proves Dec(Enc(f)) = Canon(f) and the control-field identities on the reference itself.',
   note='the reference layout is written from the cEMI specification independently of the Go code; exhaustive over the stated finite domains.'),
 'C12': dict(tech=COD + '; group clients on the in-memory socket', text='Outbound mapping (one frame, right service and message code, group flag, APCI, payload, standard-frame flag iff <= 15 bytes, hops 6, low priority) for payload lengths 0..254 through GroupRouter and GroupTunnel, inbound filter over all message kinds x address types x 16 APCI x unit kinds, end-to-end A->B normalisation, group channel closes with the client.',
   note='real time on the in-memory socket; a non-event is concluded after 4 ms of silence.'),
 'C15': dict(tech=COD, text='Every value of C02 plus oversize parts (info/data 256..600, names 30..80, non-Latin-1 names) packed into buffers of the reported size pre-filled with 0x00, 0xFF and random bytes followed by 32 guard bytes: NoPanic, GuardIntact, Deterministic, SizeExact (= reference size), HeaderLen, Truncation (= reference bytes); datagrams leaving real tunnel / router sockets are exactly the frame, whatever was sent before (netdrv TestC15Datagram).',
   note='datagram lengths are measured on real sockets (tunnel UDP over loopback, router over multicast loopback; the router half is skipped when multicast is unusable).'),
 'C18': dict(tech=COD, text='All 65,535 non-zero addresses of both kinds formatted, tokenised and parsed back; all component triples/pairs over the documented ranges widened by 3 (incl. negatives); raw forms; a grammar of malformed shapes (component counts 1..5, empty/junk components, wrong and exotic separators); constructors over 4096 systematic + seeded arguments. TLC compares with spec/Addr.tla (and proves the round trip on the reference for all addresses).',
   note='tokenisation (split + strconv.Atoi) is the trusted lexical step.'),
})
CLAIMED.update({
 'C06': dict(tech=COD, text='For every registered type: decode, re-encode, decode over the payload domains (all 2^6/2^8 encodings, all 2^16 encodings of the 3-byte types in the thorough tier and of 8 representatives in the quick tier, corner x full products and stratified IEEE classes of the 5-byte types, structured samples of the others). Every accepted payload is also decoded into a long-lived receiver that holds earlier values (same value, verdict and re-encoding demanded). TLC checks Reaccepted, SameValue (bit patterns / fields) and, for exact families, ByteIdentical against the canonical re-encoding CanonB of spec/Dpt.tla. TLC also proves on the reference that all 65,536 two-octet float words re-encode drift-free.',
   note='value comparison is on raw bit patterns / fields logged by reflection; no float arithmetic outside the code under test.'),
 'C07': dict(tech=COD, text='Encode direction for every registered type: Length / leading byte, SelfDecodable, OneStep (scaled families, in exact fixed-point arithmetic in TLA+), Monotone (adjacent sorted inputs), Saturates (out-of-range inputs land within one step of the bound; validity-gated structs give the zero payload), exact encodings of the integer / bit-field / IEEE families.',
   note='sampled float inputs (boundary neighbourhoods + log-uniform), complete field products for structs.'),
 'C08': dict(tech=COD, text='For each of the 174 types: byte strings of length 0..20 over the boundary alphabet, all payloads of the correct length for the small types (thorough: complete), all day x month x year combinations, weekday x hour x minute x second products, all 256 reserved/valid-bit bytes of 242.600/251.600: Total (no panic in Unpack/String/Unit), WrongLengthRejected, InRange.',
   note='InRange compares exact fixed-point values against the documented bounds in TLA+.'),
 'C19': dict(tech=COD + '; operation sequences replayed on a TLA+ model of the registry', text='Listed, Format, Unique, Keyed (type name = DPT_<main><sub>), Complete (every exported DPT_* type found by go/parser is produced by some name), UnknownRejected (near misses + 1000 seeded strings), FreshZero and Independent (random Produce/Unpack/Read sequences over 2 types x up to 4 instances replayed by TLC on spec/Registry.tla; 16 goroutines x 400 operations, under the race detector in the thorough tier).',
   note='known finding C19-F1: the name "14.1200".'),
})
CLAIMED.update({
 'C16': dict(tech='model checking (TLC) of Sock.tla (every segmentation, incl. liveness) + inductive invariant of SockInd.tla by Apalache (all streams up to 6 frames x 64 bytes) + TLA+ judgement of records from real loopback sockets', text='Real DialTunnelUDP / DialTunnelTCP sockets against scripted loopback peers: streams of 1..50 frames of every service type (8 bytes .. 60 KiB), every single cut position, 1-byte dribble and seeded coalescing on TCP; datagram sizes around and beyond 1 KiB on UDP; 1/2/8 concurrent senders; Close with unread frames pending, peer close; NewTunnel with SendLocalAddress on/off x UDP/TCP. TLC judges InOrderOnce, SendAtomic, ClosedAfter (Inbound closed and receiver goroutine gone), HpaiAdvertised.',
   note='kernel TCP coalescing cannot be forced; goroutine census by runtime.Stack.'),
 'C20': dict(tech='model checking (TLC) of Lookup.tla + exhaustive replay: every behaviour of Lookup.tla enumerated by TLC (arrival script -> allowed results) replayed on the real calls + TLA+ judgement of records from real loopback / multicast sockets', text='DescribeTunnel and Discover against scripted responders (immediate, late, never, repeated, other services / malformed frames first, floods, 0..21 responders) for timeouts 1..60 ms (thorough: ..500 ms): FirstMatch / AllMatches with the deadline-ambiguity rule, ReturnBound, OneRequest, DescribeHpai, SocketReleased, ResponseIntact; answer bodies under 28 other service types; and the replay table TLC enumerates from Lookup.tla (quick: 80 of 416 scripts, thorough: all 3,440), where the returned result must be one the specification allows.',
   note='wall-clock bounds carry 25 ms slack; multicast needs a usable interface (else the discovery half is skipped, not failed).'),
})
NA = {}
for p in props:
    if p['id'] not in CLAIMED:
        NA[p['id']] = 'check under construction in this session; not yet registered'

checks = []
for pid, c in CLAIMED.items():
    checks.append(dict(property_id=pid, quick_cmd='bin/check %s quick' % pid, thorough_cmd='bin/check %s thorough' % pid,
                       evidence_file='evidence/%s.json' % pid, replay_cmd_template='bin/check %s --replay {path}' % pid, engine='tla',
                       level_claimed=dict(category='model_checking', text=c['text'], design_ref='DESIGN.md section 7, ' + pid),
                       level_note=c['note'], technique=c['tech']))
m = dict(version=1, setup_cmd='bin/setup',
         hooks=dict(guard='verif', enable='go1.26.8 test -c -tags verif in /verif/harness (go.mod: replace github.com/vapourismo/knx-go => /repo)',
                    baseline_off_cmd='cd /repo && go test -vet=off -count=1 ./...', source_commits=hooks, add_only=True),
         engines=[dict(name='tla', path='bin/check', serves_properties=sorted(CLAIMED), kind_free_text='TLA+ specifications in spec/, TLC (exhaustive, simulation, trace validation), Go harness in harness/ driving the real code')],
         checks=checks,
         not_applicable=[dict(property_id=k, reason=v) for k, v in sorted(NA.items())],
         notes='model-based verification with explicit TLA+ specifications; see DESIGN.md. Exit codes of bin/check: 0 held, 1 VIOLATION, 2 inconclusive (machinery).')
json.dump(m, open(os.path.join(V, 'MANIFEST.json'), 'w'), indent=1)
print('claimed', sorted(CLAIMED), 'not applicable', sorted(NA))
