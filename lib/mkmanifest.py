#!/usr/bin/env python3
"""Regenerates MANIFEST.json from the table below (the single place where checks are registered)."""
import json, os, subprocess
V = os.path.dirname(os.path.dirname(os.path.abspath(__file__)))
props = [json.loads(l) for l in open(os.path.join(V, 'properties.jsonl'))]
hook_commits = subprocess.run(['git', '-C', '/repo', 'log', '--format=%h %s'], capture_output=True, text=True).stdout.splitlines()
hooks = [l.split()[0] for l in hook_commits if l.split(' ', 1)[1].startswith('verif:')]

TUN = 'model checking (TLC) of an implementation-shaped TLA+ specification + trace validation of the real client against TLA+ property observers'
CLAIMED = {
 'C03': dict(tech=TUN + '; schedules from TLC simulation of Tunnel.tla, seeded walks (virtual time, synctest) and multi-sender runs in scaled real time',
   text='Tunnel.tla (sender, ack relays, sequence mutex as FIFO queue, reconnect) is model-checked exhaustively in small configurations (OneInFlight, MutexHeld, BusNoDup) and simulated against the TunObs observers; every behaviour projected onto environment choices, plus seeded fault walks incl. the 255->0 wrap, TCP mode and 2..8 concurrent senders, is executed on the real knx.Tunnel over an in-memory socket and each recorded trace is judged by TLC with the C03 clauses (OneInFlight, RetxIdentical, RetxPeriod, AckedConsecutive, SuccessNeedsAck, ErrAckFails, ReturnDeadline, TcpOneShot). Bounded exploration, not a proof.',
   note='trusted: the Go simulation of socket/network/gateway (its events are part of the judged trace), the event recorder linearization (In recorded atomically with the hand-off, Out inside the socket Send), TLC. Multi-sender contention only in real time (lower time bounds exact, upper bounds lenient).'),
 'C04': dict(tech=TUN, text='Receiver clauses (DeliverIff, AckExact/AckMissing/AckSpurious, NoDupDelivery, NothingLost, TCP variant) judged by TLC on traces of the real client for adversarial request streams (own/foreign channel, seq -2..+3 and +128, up to 1000 requests across the wrap, reader stalls, reconnects), plus TLC-generated behaviours with forged requests (AdvReq).',
   note='same trusted base as C03; "accepted" is observed at the socket hand-off (In event), delivery at the application receive.'),
 'C05': dict(tech=TUN, text='The composition client x lossy/duplicating/reordering network x rule-following gateway is model-checked (BusNoDup) and simulated with the observers; on the real client the gateway/bus events are part of the trace and TLC checks BusExactlyOnce/BusOrder/BusTwice/AppExactlyOnce/AppOrder. The known finding C05-F1 is matched by a witness pattern in the observer.',
   note='the simulated gateway follows the tunnelling rules; datagrams do not outlive a connection; modulus 4 in the exhaustive model, 256 on the real client (wrap prefixes).'),
 'C09': dict(tech=TUN, text='Heartbeat period/channel/resend, failure => reconnect, DiscReq handling, epoch freshness (channel and both numberings), termination causes and inertness of foreign-channel frames, judged exactly in virtual time on seeded gateway-fault walks and TLC-generated behaviours (GwFaultBudget: silence, error status, foreign channel, busy/refused connects).',
   note='with several overlapping heartbeat workers (H < T) the reconnect-cause clause is lenient; see DESIGN.md.'),
 'C10': dict(tech=TUN + '; goroutine leaks via synctest deadlock detection and census; race detector on the same schedules in the thorough tier',
   text='Close injected at a random position of every scenario family (sender, receiver, link, heartbeat), 1..4 concurrent closers, socket failures, slow DiscReq writes: CloseBounded, OneDisc, InboundClosedAfterClose, SendAfterCloseFails, NoLeak, NoPanic (a crashed driver run becomes a Crash event), NoRace (thorough).',
   note='the data-race clause is decided by the Go race detector, not by TLC; real-socket receiver goroutine leak is out of reach of the in-memory socket.'),
 'C13': dict(tech='model checking (TLC) of Router.tla + trace validation of the real router client against the RouterObs observers (scaled real time)',
   text='Pace (exact lower bound between successful transmissions), BusyWindow (no transmission inside the back-off window measured from the busy-locked trace point), BusyWait (announced wait, cap, control), BusyTaken, Resumes; OnePerWaiter is checked on the FIFO model and reported as drift on real traces.',
   note='real time: 300 us slack on lower bounds; needs the build-tag trace points busy-wait/busy-locked.'),
 'C14': dict(tech='model checking (TLC) of Router.tla + trace validation of the real router client against the RouterObs observers (scaled real time)',
   text='ResendSpurious/ResendOrder/ResendMissing against the observer-reconstructed bounded history (lost counts 0..65535, retain 0..64, failing sends), DeliveredOnce, CloseClosesInbound, Resumes (no deadlock).',
   note='needs the lost-locked trace point; real time.'),
 'C17': dict(tech=TUN + ' (tunnel in virtual time, router in real time)',
   text='InOrder judged on bursts of 2..64 accepted telegrams x consumer behaviours (always ready, stalled, intermittent, stalls longer than the resend interval) through Tunnel, GroupTunnel, Router and GroupRouter. Known findings C17-F1/F2 (overflow goroutines overtaken) are matched by witness patterns that use the parked trace points; any other reordering is a violation.',
   note='in real time every overtaking of an overflow delivery is attributed to the known finding.'),
}
NA = {}
for p in props:
    if p['id'] not in CLAIMED:
        NA[p['id']] = 'check under construction in this session; not yet registered'

checks = []
for pid, c in CLAIMED.items():
    checks.append(dict(property_id=pid, quick_cmd='bin/check %s quick' % pid, thorough_cmd='bin/check %s thorough' % pid,
                       evidence_file='evidence/%s.json' % pid, replay_cmd_template='bin/check %s --replay {path}' % pid, engine='tla',
                       level_claimed=dict(category='model_checking', text=c['text'], design_ref='DESIGN.md section 7, ' + pid),
                       level_note=c['note'], technique=c['tech']))
m = dict(version=1, setup_cmd='bin/setup',
         hooks=dict(guard='verif', enable='go1.26.8 test -c -tags verif in /verif/harness (go.mod: replace github.com/vapourismo/knx-go => /repo)',
                    baseline_off_cmd='cd /repo && go test -vet=off -count=1 ./...', source_commits=hooks, add_only=True),
         engines=[dict(name='tla', path='bin/check', serves_properties=sorted(CLAIMED), kind_free_text='TLA+ specifications in spec/, TLC (exhaustive, simulation, trace validation), Go harness in harness/ driving the real code')],
         checks=checks,
         not_applicable=[dict(property_id=k, reason=v) for k, v in sorted(NA.items())],
         notes='model-based verification with explicit TLA+ specifications; see DESIGN.md. Exit codes of bin/check: 0 held, 1 VIOLATION, 2 inconclusive (machinery).')
json.dump(m, open(os.path.join(V, 'MANIFEST.json'), 'w'), indent=1)
print('claimed', sorted(CLAIMED), 'not applicable', sorted(NA))
