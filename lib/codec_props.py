"""Checks of the pure codec properties: the Go loggers (harness/codec) run the real Pack/Unpack
functions over enumerated / seeded domains and log raw records; TLC evaluates every record
against the TLA+ reference specifications (Trace_Codec.tla)."""
import json, os, re, shutil, subprocess, time, concurrent.futures as cf
import vlib, lookupgen

PLAN = {
    # pid: (go test, theorem configs of MC_Codec (quick, thorough))
    'C11': dict(test='TestC11', mc=['MC_Codec_C11.cfg']),
    'C18': dict(test='TestC18', mc=['MC_Codec_C18.cfg']),
    'C02': dict(test='TestC02', mc=['MC_Codec_C11.cfg']),
    'C15': dict(test='TestC15', mc=['MC_Codec_C11.cfg'], extra=[('./netdrv/', 'TestC15Datagram')]),
    'C01': dict(test='TestC01', mc=['MC_Codec_C11.cfg'], extra=[('./netdrv/', 'TestC01Recv')]),
    'C16': dict(test='TestC16', pkg='./netdrv/', mc=[], sock=True),
    'C20': dict(test='TestC20', pkg='./netdrv/', mc=[], lookup=True),
    'C12': dict(test='TestC12', mc=['MC_Codec_C11.cfg']),
    'C06': dict(test='TestC06', mc=['MC_Codec_Dpt.cfg']),
    'C07': dict(test='TestC07', mc=['MC_Codec_Dpt.cfg']),
    'C08': dict(test='TestC08', mc=['MC_Codec_Dpt.cfg']),
    'C19': dict(test='TestC19', mc=['MC_Codec_Dpt.cfg']),
}

ASSUME = {
    'C06': ['exhaustive for the 1-, 2- and (in the thorough tier, or for 8 representatives in the quick tier) 3-byte payload spaces; 5-byte types: corner products of the two 16-bit halves plus stratified IEEE-754 classes; strings and structs by structured sampling',
            'byte identity is demanded for the exact families only, modulo the reserved bits / documented replacements written down in spec/Dpt.tla (CanonB)'],
    'C07': ['float inputs: every bound, its float32 neighbours, the neighbours of every exponent-switch point, log-uniform and dense samples; NaN / Inf are outside the statement',
            'magnitudes are compared in TLA+ as exact fixed-point numbers (units of 1/1600) derived from the IEEE-754 bit pattern; one unit of slack for flooring',
            'documented ranges as in the library documentation (9.xxx: +-670760 unless tighter), 8.003/8.010 +-327.68, 8.004 +-3276.8'],
    'C08': ['InRange uses the documented ranges of spec/Dpt.tla (written from the KNX datapoint document and the type comments, not from the decoding code paths)'],
    'C19': ['declared types are the exported DPT_* type declarations found by go/parser in /repo/knx/dpt; known finding C19-F1 (name 14.1200) is matched by name',
            'the data-race clause is decided by the Go race detector (thorough tier)'],
    'C11': ['the reference layout (spec/Cemi.tla) is written from the cEMI specification; byte equality with it IS the property here',
            'the Go side only enumerates the domain and projects values to/from the record vocabulary (table-driven glue)'],
    'C16': ['real loopback sockets; the kernel may coalesce the scripted TCP segments (reach, not soundness); "well-formed" = accepted by knxnet.Unpack on exactly the frame bytes',
            'Sock.tla proves the framing argument for every segmentation of small abstract streams (TLC, incl. liveness of receiver termination)'],
    'C20': ['real loopback / multicast sockets in real time: responses at least max(8 ms, timeout/3) before the deadline must be included, responses sent later than timeout + 25 ms must not; in between either is accepted',
            'Discover: requests are not observable by a responder on the same host (multicast loopback is a sender-side option that Discover switches off), so OneRequest / DescribeHpai are judged for Describe only; if the group cannot be joined the discovery half is skipped',
            'Lookup.tla (timed automaton of both calls) is model-checked exhaustively for up to 3 arrivals',
            'time bound: timeout + 25 ms + the set-up the harness observed (/proc/net/igmp shows the membership) + twice the lateness of a 1 ms sleeper; an overrun is a verdict when the same scenario overruns three times in a row (socket set-up / multicast join / close are system calls with latency spikes of 10..70 ms on this machine that no sleeper measures)'],
    'C18': ['address text is tokenised by the harness (split on the separator, strconv.Atoi); lexical variants that Atoi itself accepts ("+5", "007") are outside the token model'],
}


def split_file(path, k, outdir):
    """Splits an ndjson file into k chunks (round robin by blocks to keep locality)."""
    outs = [open(os.path.join(outdir, 'chunk_%d.ndjson' % i), 'w') for i in range(k)]
    n = 0
    with open(path) as f:
        for line in f:
            outs[(n // 256) % k].write(line)
            n += 1
    for o in outs:
        o.close()
    return [o.name for o in outs if os.path.getsize(o.name) > 0], n


def judge_records(work, path, name):
    d = work.path('chunks_' + name)
    os.makedirs(d, exist_ok=True)
    # chunks of at most ~250 k records (TLC holds a chunk in memory, ~4 KB per record; sixteen JVMs with 1.7 M records
    # each were killed by the kernel's OOM killer in a thorough run), judged by a pool of 12 JVMs of at most 3 GB
    total = sum(1 for _ in open(path))
    chunks, n = split_file(path, max(vlib.NCPU, -(-total // 250000)), d)

    def one(ix):
        rc, out = vlib.tlc(work, 'Trace_Codec', env_extra={'TRACE': chunks[ix], 'JAVA_TOOL_OPTIONS': '-Xmx3g'}, name='%s_%d' % (name, ix), timeout=1500)
        bad, notes, done = vlib.parse_flags(out)
        nl = sum(1 for _ in open(chunks[ix]))
        if done != nl:
            raise vlib.Inconclusive('TLC did not evaluate all records of %s (%s of %d):\n%s' % (chunks[ix], done, nl, out[-2500:]))
        st, gen = vlib.tlc_states(out)
        recs = None
        if bad:
            lines = open(chunks[ix]).read().splitlines()
            for b in bad:
                b['record'] = json.loads(lines[b['line'] - 1])
        return bad, st
    with cf.ThreadPoolExecutor(max_workers=min(len(chunks), 12)) as ex:
        outs = list(ex.map(one, range(len(chunks))))
    bad = [b for o in outs for b in o[0]]
    return bad, n, sum(o[1] for o in outs)


def run_theorems(work, pid, tier):
    states = trans = 0
    detail = []
    for c in PLAN[pid]['mc']:
        if not os.path.exists(os.path.join(vlib.SPEC, c)):
            continue
        rc, out = vlib.tlc(work, 'MC_Codec', cfg=c, workers=vlib.NCPU, timeout=900, name='thm_' + c)
        st, gen = vlib.tlc_states(out)
        ok = 'Error:' not in out and st > 0
        if not ok:
            print('MODEL-NOTE: theorems of the reference specification (%s): TLC reports an error' % c)
        states += st
        trans += gen
        detail.append(dict(cfg=c, distinct_states=st, states_generated=gen, ok=ok))
    return states, trans, detail


def run_sock_model(work):
    st = tr = 0
    for c in ('MC_Sock_A.cfg', 'MC_Sock_B.cfg'):
        rc, out = vlib.tlc(work, 'MC_Sock', cfg=c, workers=4, timeout=300, name='sock_' + c)
        if 'Error:' in out:
            print('MODEL-NOTE: Sock.tla (%s): TLC reports an error' % c)
        a, b = vlib.tlc_states(out)
        st += a
        tr += b
    return st, tr


IND = {}


def run_sock_inductive(work):
    """Apalache: the inductive invariant of SockInd.tla (the same actions as Sock.tla, typed) for EVERY stream of up to six
    frames of 1..64 bytes and every segmentation - base case, inductive step, and that it implies InOrderOnce."""
    d = work.path('apalache')
    os.makedirs(d, exist_ok=True)
    shutil.copy(os.path.join(vlib.SPEC, 'SockInd.tla'), d)
    res = {}
    for name, args in (('base', ['--init=Init', '--inv=IndInv', '--length=0']), ('step', ['--init=IndInit', '--inv=IndInv', '--length=1']),
                       ('implies_InOrderOnce', ['--init=IndInit', '--inv=InOrderOnce', '--length=0'])):
        try:
            p = subprocess.run(['timeout', '300', 'apalache-mc', 'check', '--cinit=ConstInit'] + args + ['SockInd.tla'], cwd=d,
                               stdout=subprocess.PIPE, stderr=subprocess.STDOUT, text=True)
            res[name] = 'EXITCODE: OK' in p.stdout and 'The outcome is: NoError' in p.stdout
        except OSError:
            res[name] = False
    if not all(res.values()):
        print('MODEL-NOTE: SockInd.tla: Apalache did not establish the inductive invariant (%s)' % res)
    IND.clear()
    IND.update(res, bounds='streams of up to 6 frames of 1..64 bytes, segments of 1..400 bytes', tool='apalache-mc 0.58 (symbolic, SMT)')


def check(pid, tier):
    t0 = time.time()
    w = vlib.Work(pid)
    try:
        known = vlib.load_known()
        states, trans, thm = run_theorems(w, pid, tier)
        recfile = w.path('records.ndjson')
        env = vlib.goenv()
        env.update(VERIF_TIER=tier, VERIF_SEED=str(vlib.seed()))
        jobs = [(PLAN[pid].get('pkg', './codec/'), PLAN[pid]['test'])] + PLAN[pid].get('extra', [])
        table_info = None
        if PLAN[pid].get('lookup'):
            # replay table enumerated by TLC from Lookup.tla (every arrival script within the bounds and the results allowed for it)
            tpath, nrows, total, tstates0 = lookupgen.write(w, tier, vlib.seed())
            env['VERIF_TABLE'] = tpath
            jobs.append((PLAN[pid]['pkg'], 'TestC20Table'))
            table_info = dict(scripts_replayed=nrows, scripts_in_table=total, lookup_gen_states=tstates0,
                              rule='quick: seeded sample of the table for Timeout 3 / 2 arrivals; thorough: the complete table for Timeout 3 / 3 arrivals')
        bins = {}
        with open(recfile, 'w') as allrec:
            for k, (pkg, test) in enumerate(jobs):
                if pkg not in bins:
                    bins[pkg] = vlib.build_test(w, pkg, w.path('bin%d.test' % k), tags='verif')
                part = w.path('records_%d.ndjson' % k)
                env['VERIF_OUT'] = part
                p = subprocess.run([bins[pkg], '-test.run', '^%s$' % test, '-test.timeout', '0'], env=env, cwd=w.dir,
                                   stdout=subprocess.PIPE, stderr=subprocess.STDOUT, text=True)
                if not os.path.exists(part) or (p.returncode != 0 and os.path.getsize(part) == 0):
                    raise vlib.Inconclusive('record logger %s failed:\n%s' % (test, p.stdout[-3000:]))
                if p.returncode != 0:
                    # the logger died (a panic escaped the library in a goroutine of its own, e.g. a socket receiver)
                    allrec.write(json.dumps(dict(k='crash', test=test, out=p.stdout[-1500:])) + '\n')
                allrec.write(open(part).read())
        if PLAN[pid].get('lookup'):
            for c in ('MC_Lookup_describe.cfg', 'MC_Lookup_discover.cfg'):
                rc, out = vlib.tlc(w, 'Lookup', cfg=c, workers=4, timeout=300, name='lk_' + c)
                if 'Error:' in out:
                    print('MODEL-NOTE: Lookup.tla (%s): TLC reports an error' % c)
                a, b = vlib.tlc_states(out)
                states, trans = states + a, trans + b
        if PLAN[pid].get('sock'):
            states2, trans2 = run_sock_model(w)
            run_sock_inductive(w)
            states, trans = states + states2, trans + trans2
        bad, nrec, tstates = judge_records(w, recfile, pid)
        if table_info is not None:
            tr = [json.loads(l) for l in open(recfile) if '"table":1' in l]
            table_info['records'] = len(tr)
            table_info['judged_strictly'] = sum(1 for r in tr if r['late'] <= r['tol'] and r.get('stall', 0) <= r['tol'] and r['elapsed'] <= r['timeout'] + r['tol'])
        race_note = None
        if pid == 'C19' and tier == 'thorough':
            # the concurrency clause under the race detector (the schedules come from 16 goroutines x 400 operations)
            rb = vlib.build_test(w, './codec/', w.path('codec_race.test'), race=True, tags='verif')
            env2 = dict(env)
            env2.update(VERIF_OUT=w.path('records_race.ndjson'), GORACE='halt_on_error=1')
            pr = subprocess.run([rb, '-test.run', '^TestC19$', '-test.timeout', '0'], env=env2, cwd=w.dir, stdout=subprocess.PIPE, stderr=subprocess.STDOUT, text=True)
            if 'DATA RACE' in pr.stdout:
                race_note = pr.stdout[-3000:]
                bad.append(dict(run=0, n=0, line=0, tags=['C19.NoRace'], record=dict(k='race', report=race_note[:1500])))
        pre = pid + '.'
        listed = {f['tag']: f for f in known.get('findings', []) if f['property'] == pid}
        viol, kf = [], {}
        for b in bad:
            for t in b['tags']:
                if not t.startswith(pre):
                    continue
                key = None
                for f in listed.values():
                    if t == f['tag'] and all(b['record'].get(k) == v for k, v in f.get('match', {}).items()):
                        key = f['id']
                if key:
                    kf.setdefault(key, []).append(b)
                else:
                    viol.append((t, b))
        for f in known.get('findings', []):
            if f['property'] == pid:
                print('KNOWN-FINDING: property=%s %s witnessed=%d %s' % (pid, f['id'], len(kf.get(f['id'], [])), f['what']))
        rc = 0
        if viol:
            tag, b = viol[0]
            by = {}
            for t, x in viol:
                by.setdefault(t, []).append(x)
            replay = vlib.save_replay(pid, '%s-seed%d' % (tag.replace('.', '_'), vlib.seed()),
                                      dict(kind='codec-records', test=PLAN[pid]['test'], tags={t: len(v) for t, v in by.items()},
                                           by_name={t: dict(__import__('collections').Counter(str(x['record'].get('name', x['record'].get('k'))) for x in v).most_common(40)) for t, v in by.items()},
                                           records=[x['record'] for t, v in by.items() for x in v[:5]]))
            print('VIOLATION property=%s replay=%s' % (pid, replay))
            print('  clauses flagged: %s' % {t: len(v) for t, v in by.items()})
            rc = 1
        samples = []
        with open(recfile) as f:
            for i, l in enumerate(f):
                if i in (0, nrec // 2, nrec - 1):
                    samples.append(json.loads(l))
        cov = dict(states=states + tstates, transitions=trans + tstates, traces_validated_against_impl=nrec, samples=samples,
                   evaluations=nrec, distinct_nontrivial=nrec,
                   rule='one evaluation = one input/output record of the real codec (distinct inputs by construction of the enumeration) '
                        'evaluated by TLC against the TLA+ reference specification',
                   reference_theorems=thm, known_findings={k: len(v) for k, v in kf.items()},
                   exhaustive=(pid in ('C11', 'C18')), real_sockets=bool(PLAN[pid].get('sock') or PLAN[pid].get('lookup') or PLAN[pid].get('extra')), lookup_table=table_info, inductive_invariant=(dict(IND) if PLAN[pid].get('sock') else None))
        vlib.write_evidence(pid, tier, 'model_checking', cov, ASSUME.get(pid, []), time.time() - t0, len(viol))
        print('%s %s: %d records of the real codec evaluated by TLC; %s' % (pid, tier, nrec, 'VIOLATIONS' if viol else 'held'))
        return rc
    finally:
        w.close()


def replay(pid, path):
    """Codec replays re-run the whole (deterministic, seeded) logger: the records are a function of the tree."""
    return check(pid, os.environ.get('VERIF_TIER', 'quick'))
