"""Checks of the tunnel-client properties (C03 C04 C05 C09 C10 C17): schedules -> real client
-> ndjson traces -> TLC (TunObs observers) -> verdict."""
import json, os, sys, time, concurrent.futures as cf
import vlib, tungen


def chunks(lst, k):
    k = max(1, min(k, len(lst)))
    return [lst[i::k] for i in range(k)]


def drive_and_judge(work, binary, runs, mode, name, racebin=None, test='TestTunnelSchedules', tracemod='Trace_Tun'):
    """Runs the schedules (in parallel chunks), validates every trace with TLC.
    Returns dict(bad, notes, info, events, states, runs_ok)."""
    parts = chunks(runs, vlib.NCPU if mode == 'bubble' else max(2, vlib.NCPU // 2))
    res = dict(bad=[], notes=[], crashes=[], hangs=[], races=[], stuck=[], events=0, states=0, gen=0, traces={}, validated=0, trace_files=[])

    def one(ix):
        part = parts[ix]
        d = work.path('%s_%d' % (name, ix))
        os.makedirs(d, exist_ok=True)
        sched = os.path.join(d, 'sched.ndjson')
        with open(sched, 'w') as f:
            for r in part:
                f.write(json.dumps(r) + '\n')
        trace = os.path.join(d, 'trace.ndjson')
        info = vlib.run_driver(racebin or binary, test, sched, trace, mode=mode,
                               env_extra={'GORACE': 'halt_on_error=0'} if racebin else None)
        nev = sum(1 for _ in open(trace))
        rc, out = vlib.tlc(work, tracemod, env_extra={'TRACE': trace}, name='%s_%d' % (name, ix), timeout=900)
        bad, notes, done = vlib.parse_flags(out)
        if done != nev:
            raise vlib.Inconclusive('TLC did not consume the whole trace (%s of %d lines) in %s:\n%s' % (done, nev, d, out[-2500:]))
        st, gen = vlib.tlc_states(out)
        return dict(info=info, bad=bad, notes=notes, nev=nev, states=st, gen=gen, trace=trace, sched=sched)

    with cf.ThreadPoolExecutor(max_workers=len(parts)) as ex:
        outs = list(ex.map(one, range(len(parts))))
    for o in outs:
        res['bad'] += [dict(b, trace=o['trace'], sched=o['sched']) for b in o['bad']]
        res['notes'] += o['notes']
        for k in ('crashes', 'hangs', 'races', 'stuck'):
            res[k] += o['info'][k]
        res['events'] += o['nev']
        res['states'] += o['states']
        res['gen'] += o['gen']
        res['trace_files'].append(o['trace'])
    res['validated'] = len(runs) - len(res['stuck'])
    return res


def witness(b):
    """Extracts schedule and trace of the run that produced flag b."""
    run = b['run']
    sched = None
    for l in open(b['sched']):
        r = json.loads(l)
        if r['run'] == run:
            sched = r
    trace = vlib.split_trace(b['trace']).get(run, [])
    return dict(kind='schedule', run=sched, trace=trace[:4000], tags=b['tags'], at_event=b['n'])


CONF_STATS = {}


def conformance(runs, res):
    """Compares, for every TLC-generated behaviour, the observable client events the specification predicted
    with the events the real client produced when driven along the same environment choices (grouped per
    instant, order within an instant ignored). Returns (equal, compared, first differences)."""
    pred = {r['run']: r['predicted'] for r in runs if 'predicted' in r}
    # a behaviour is reproducible up to its cut-off at the simulation depth and up to the first choice made
    # INSIDE the client (several acknowledgements on offer, several timers due at one instant)
    ends = {r['run']: min(r.get('pred_end', 1 << 60), r['choice'] if r.get('choice') is not None else 1 << 60) for r in runs}
    if not pred:
        return 0, 0, []
    traces = {}
    for path in set(b for b in res.get('trace_files', [])):
        traces.update(vlib.split_trace(path))
    equal = compared = partial = nevents = 0
    diffs = []
    for rid, p in pred.items():
        lines = traces.get(rid)
        if lines is None:
            continue
        got = []
        missing = None
        cut = ends.get(rid, 1 << 60)
        inpre = False
        offS = offR = 0
        for l in lines:
            e = json.loads(l)
            if e['k'] == 'Teardown':
                break
            if e['k'] == 'PrefixBegin':
                inpre = True
                continue
            if e['k'] == 'PrefixEnd':
                inpre, offS, offR = False, e['a'], e['b']
                continue
            if inpre:
                continue        # the wrap prefix is not part of the generated behaviour
            if e['k'] in ('Out', 'In') and e['svc'] in ('TunnelReq', 'TunnelRes') and e['seq'] >= 0:
                # sequence numbers are compared relative to the position the prefix left the counters at
                off = offS if (e['k'] == 'Out') == (e['svc'] == 'TunnelReq') else offR
                e['seq'] = (e['seq'] - off) % 256
            if e['k'] in ('Skip', 'Delayed'):
                # the schedule was not applicable from here on (a restriction of the virtual-time driver): compared
                # up to this instant only. A datagram the specification expected in the network and the real run
                # does not have is itself a difference.
                if e['k'] == 'Skip' and e['s'].startswith('net:') and e['t'] < cut and missing is None:
                    missing = e
                cut = min(cut, e['t'])
            if e['k'] in ('Out', 'In', 'SendRet', 'Recv', 'CloseRet') and e.get('s') != 'teardown':
                got.append([e['t'], e['k'], e['svc'], e['ch'], e['seq'], e['st'] if e['k'] != 'SendRet' else e['s']])
        if cut < ends.get(rid, 1 << 60):
            partial += 1
        compared += 1
        key = lambda x: (x[0], json.dumps(x[1:]))
        # ConnReq carries the attempt number in seq only in the specification; sequence numbers are compared
        # modulo the model's modulus (the real client counts modulo 256)
        M = 4
        norm = lambda xs: sorted(([x[0], x[1], x[2], x[3], -1 if x[2] == 'ConnReq' or x[4] < 0 else x[4] % M, x[5]] for x in xs), key=key)
        # the behaviour is cut at the simulation depth: its last instant may lack the client's own (urgent) steps
        end = cut
        a, b = [x for x in norm(p) if x[0] < end], [x for x in norm(got) if x[0] < end]
        nevents += len(a)
        if a == b and missing is not None:
            if len(diffs) < 8:
                diffs.append(dict(run=rid, t=missing['t'], predicted=['a datagram in the network for step %d' % missing['a']], real=[missing['s']]))
        elif a == b:
            equal += 1
        elif len(diffs) < 8:
            ts = sorted(set(x[0] for x in a) | set(x[0] for x in b))
            t0 = next(t for t in ts if [x for x in a if x[0] == t] != [x for x in b if x[0] == t])
            diffs.append(dict(run=rid, t=t0, predicted=[x[1:] for x in a if x[0] == t0], real=[x[1:] for x in b if x[0] == t0]))
    CONF_STATS['events'] = nevents
    CONF_STATS['partial'] = partial
    return equal, compared, diffs


def sample_of(run):
    return dict(tag=run.get('tag'), cfg=run['cfg'], steps=run['steps'][:25], nsteps=len(run['steps']))


def judge(pid, res, known):
    """Separates violations of property pid from known findings. Returns (viol, kf)."""
    pre = pid + '.'
    listed = {f['tag']: f for f in known.get('findings', []) if f['property'] == pid}
    viol, kf = [], {}
    for b in res['bad']:
        for t in b['tags']:
            if t == 'C10.NoPanic' and pid != 'C10':
                # the client killed the process (panic in one of its goroutines, fatal runtime error): every call that was
                # pending never returned and nothing is delivered any more - no tunnel property survives that
                t = pre + 'ClientCrashed'
            if not t.startswith(pre):
                continue
            if t in listed:
                kf.setdefault(t, []).append(b)
            else:
                viol.append((t, b))
    return viol, kf


def replay(pid, path):
    """Re-executes a stored witness on the current tree and judges it again."""
    w = vlib.Work('replay_' + pid)
    try:
        obj = json.load(open(path))
        run = obj['run']
        mode = run['cfg'].get('mode', 'bubble') or 'bubble'
        binary = vlib.build_test(w, './drive/', w.path('drive.test'))
        known = vlib.load_known()
        for attempt in range(1 if mode == 'bubble' else 5):
            if run.get('tag', '').startswith(('pace', 'history', 'rburst', 'rtlc')):
                res = drive_and_judge(w, binary, [run], 'real', 'replay%d' % attempt, test='TestRouterSchedules', tracemod='Trace_Rtr')
            else:
                res = drive_and_judge(w, binary, [run], mode, 'replay%d' % attempt)
            viol, kf = judge(pid, res, known)
            if viol:
                print('VIOLATION property=%s replay=%s' % (pid, path))
                print('  clauses: %s' % sorted(set(t for t, _ in viol)))
                return 1
        print('replay: property %s held on the stored schedule' % pid)
        return 0
    finally:
        w.close()
