"""Summarises a TLC counterexample of MC_Tun (ev / o.bad per state)."""
import re, sys
t = open(sys.argv[1]).read()
states = re.split(r'\nState \d+: ', t)
def fld(rec, k):
    m = re.search(r'\b%s \|-> ("[^"]*"|-?\d+|TRUE|FALSE)' % k, rec)
    return m.group(1) if m else '?'
for i, st in enumerate(states[1:], 1):
    m = re.search(r'/\\ ev = \[(.*?)\]\n(/\\|$)', st, re.S)
    ev = m.group(1) if m else ''
    bad = re.search(r'\bbad \|-> (<<.*?>>)', st)
    a = re.search(r'/\\ act = \[(.*?)\]\n(/\\|$)', st, re.S)
    an = fld(a.group(1), 'n') if a else '?'
    print(i, 'act', an, '| ev', fld(ev, 'k'), 't', fld(ev, 't'), fld(ev, 'svc'), 'ch', fld(ev, 'ch'), 'seq', fld(ev, 'seq'), 'st', fld(ev, 'st'),
          'pid', fld(ev, 'pid'), 's', fld(ev, 's'), 'g', fld(ev, 'g'), 'a', fld(ev, 'a'), '| bad', bad.group(1) if bad else '')
