import sys, json, os, time
sys.path.insert(0, os.path.dirname(__file__))
import vlib, tungen
fam = sys.argv[1]; n = int(sys.argv[2]); seed = int(sys.argv[3]) if len(sys.argv) > 3 else 1
w = vlib.Work('exp')
try:
    g = tungen.Gen(seed)
    runs = []
    for i in range(n):
        if fam == 'sender': r = g.sender(i+1, wrap=[0,0,254,255][i%4] if i%8==3 else 0)
        elif fam == 'sendertcp': r = g.sender(i+1, tcp=True)
        elif fam == 'receiver': r = g.receiver(i+1, wrap=[0,253,255][i%3] if i%5==4 else 0)
        elif fam == 'link': r = g.link(i+1, wrap=[0,0,0,257][i%4])
        elif fam == 'rt': r = g.senders_rt(i+1, reconnect=(i%2==1))
        elif fam == 'hb': r = g.heartbeat(i+1)
        elif fam == 'close': r = g.with_close([g.sender, g.receiver, g.link, g.heartbeat][i%4](i+1))
        elif fam == 'burst': r = g.burst(i+1, 2 + i % 20, ['ready','stalled','intermittent'][i%3])
        runs.append(r)
    sched = w.path('sched.ndjson')
    with open(sched, 'w') as f:
        for r in runs: f.write(json.dumps(r) + '\n')
    t0 = time.time()
    b = vlib.build_test(w, './drive/', w.path('drive.test'))
    print('build', round(time.time()-t0,1))
    t0 = time.time()
    info = vlib.run_driver(b, 'TestTunnelSchedules', sched, w.path('trace.ndjson'), mode=('real' if fam=='rt' else 'bubble'))
    print('drive', round(time.time()-t0,1), {k: len(v) for k, v in info.items()}, sum(1 for _ in open(w.path('trace.ndjson'))), 'events')
    for k in info:
        for c in info[k][:2]: print(k, c['run'], c['text'][-600:])
    t0 = time.time()
    rc, out = vlib.tlc(w, 'Trace_Tun', env_extra={'TRACE': w.path('trace.ndjson')})
    print('tlc', round(time.time()-t0,1), rc)
    bad, notes, done = vlib.parse_flags(out)
    print('done', done, 'bad', len(bad), 'notes', len(notes))
    from collections import Counter
    print(Counter(t for b in bad for t in b['tags']))
    print(Counter(t for b in notes for t in b['tags']))
    if done is None: print(out[-3000:])
    os.makedirs('/tmp/w/exp', exist_ok=True)
    import shutil; shutil.copy(w.path('trace.ndjson'), '/tmp/w/exp/trace.ndjson'); shutil.copy(sched, '/tmp/w/exp/sched.ndjson')
    json.dump(bad, open('/tmp/w/exp/bad.json','w'))
finally:
    w.close()
