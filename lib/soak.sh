#!/bin/sh
# usage: soak.sh <tier> <seeds...> -- ids... : runs checks under several seeds on the unchanged tree
tier=$1; shift; seeds=""; while [ "$1" != "--" ]; do seeds="$seeds $1"; shift; done; shift
for s in $seeds; do for id in "$@"; do
  t0=$(date +%s); out=$(VERIF_SEED=$s bin/check $id $tier 2>&1); rc=$?; t1=$(date +%s)
  echo "SOAK $id seed=$s rc=$rc $((t1-t0))s $(echo "$out" | grep -o 'clauses flagged.*\|INCONCLUSIVE.*\|MODEL-NOTE.*\|SPEC-DRIFT.*\|conformance [0-9/]*' | head -2 | tr '\n' ' ' | cut -c1-220)"
done; done
