#!/bin/sh
# usage: obs_campaign.sh <first seed> <last seed> [workers]: simulates specification x observers (MC_Tun with every SIM_*.cfg,
# MC_Rtr with SIM_Rtr.cfg) under many seeds; an ObsQuiet violation means an observer flags a behaviour of the SPECIFICATION
# (an observer that is stricter than the specification would raise false alarms on real traces). Prints one line per run.
a=$1; b=$2; w=${3:-6}
d=$(mktemp -d /tmp/obscamp.XXXXXX); cp "$(dirname "$0")"/../spec/*.tla "$(dirname "$0")"/../spec/*.cfg $d; cd $d
for s in $(seq $a $b); do
  for c in SIM_all SIM_C03 SIM_C04 SIM_C05 SIM_C09 SIM_C10 SIM_C17 SIM_tcp; do
    out=$(timeout 900 tlc -workers $w -simulate num=2500 -depth 80 -seed $s -metadir $d/md_$c_$s -config $c.cfg MC_Tun.tla 2>&1)
    v=$(echo "$out" | grep -c "is violated"); x=$(echo "$out" | grep -c "unexpected exception")
    echo "OBS $c seed=$s violated=$v tlc_exception=$x $(echo "$out" | grep -o 'states generated: [0-9]*')"
    [ "$v" != "0" ] && echo "$out" | grep -v "^Semantic\|^Linting\|^Parsing" > $d/viol_${c}_$s.txt && cp $d/viol_${c}_$s.txt /tmp/w/ 2>/dev/null
    rm -rf $d/md_*
  done
  out=$(timeout 900 tlc -workers $w -simulate num=2500 -depth 120 -seed $s -metadir $d/mdr_$s -config SIM_Rtr.cfg MC_Rtr.tla 2>&1)
  v=$(echo "$out" | grep -c "is violated")
  echo "OBS SIM_Rtr seed=$s violated=$v $(echo "$out" | grep -o 'states generated: [0-9]*')"
  [ "$v" != "0" ] && echo "$out" | grep -v "^Semantic\|^Linting\|^Parsing" > /tmp/w/viol_rtr_$s.txt
  rm -rf $d/mdr_*
done
rm -rf $d
