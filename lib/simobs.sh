#!/bin/sh
# usage: simobs.sh <cfg> <num> <depth> [seed]  : simulate MC_Tun with observers, print counterexample summary
rm -rf /tmp/w/mc && mkdir -p /tmp/w/mc && cp /verif/spec/*.tla /verif/spec/*.cfg /tmp/w/mc && cd /tmp/w/mc && timeout 300 tlc -workers 8 -simulate num=$2 -depth $3 ${4:+-seed $4} -metadir /tmp/w/mc/md -config $1 MC_Tun.tla 2>&1 | grep -v "^Semantic\|^Linting\|^Parsing" > out.txt; grep -c "^State" out.txt; python3 /verif/lib/tlctrace.py out.txt | tail -${5:-45}; grep "Error\|states generated\|Finished" out.txt | head
