#!/bin/bash
# usage: pmutx.sh <tier> <ID> <k> <CHECK> : like pmut.sh, but runs the check of another property against the seeded defect
tier=$1; id=$2; k=$3; chk=$4; p=/tmp/mut/out/$id/$k/patch.diff; [ -f /verif/seeded/$id-$k/patch.diff ] && [ ! -f $p ] && p=/verif/seeded/$id-$k/patch.diff
wt=/tmp/mut/px_${id}_${k}_$chk; rm -rf $wt; git -C /repo worktree add -q --detach $wt HEAD || exit 3
cd $wt && (git apply $p 2>/dev/null || patch -p1 -s --fuzz=3 --no-backup-if-mismatch < $p >/dev/null 2>&1) || { echo "MUT $id/$k PATCH FAILED"; cd /; git -C /repo worktree remove --force $wt; exit 3; }
cd /verif; out=$(VERIF_REPO=$wt VERIF_EVIDENCE_DIR=/tmp/mut/evx_${id}_${k}_$chk bin/check $chk $tier 2>&1); rc=$?
echo "MUT $id/$k check=$chk rc=$rc $(echo "$out" | grep -o 'clauses flagged.*\|INCONCLUSIVE.*' | head -1 | cut -c1-180)"
cd /; git -C /repo worktree remove --force $wt; rm -rf /tmp/mut/evx_${id}_${k}_$chk
