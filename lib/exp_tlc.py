import sys, json, os, time
sys.path.insert(0, os.path.dirname(__file__))
import vlib, tlcsched, tunnel_check
cfg = sys.argv[1]; num=int(sys.argv[2]); depth=int(sys.argv[3]); seed=int(sys.argv[4]) if len(sys.argv)>4 else 1
w = vlib.Work('exptlc')
try:
    t0=time.time()
    runs, st = tlcsched.generate(w, cfg, num, depth, seed)
    print('gen', st, round(time.time()-t0,1), 'steps', sum(len(r['steps']) for r in runs))
    b = vlib.build_test(w, './drive/', w.path('drive.test'))
    res = tunnel_check.drive_and_judge(w, b, runs, 'bubble', 'tlc')
    from collections import Counter
    print('events', res['events'], 'stuck', len(res['stuck']), 'crashes', len(res['crashes']))
    print(Counter(t for b in res['bad'] for t in b['tags']))
    print(Counter(t for b in res['notes'] for t in b['tags']))
    os.makedirs('/tmp/w/exp', exist_ok=True)
    json.dump([dict(b) for b in res['bad']], open('/tmp/w/exp/bad.json','w'))
    import shutil
    for b in res['bad'][:1]:
        shutil.copy(b['trace'], '/tmp/w/exp/trace.ndjson'); shutil.copy(b['sched'], '/tmp/w/exp/sched.ndjson')
        print(b['run'], b['n'], b['tags'])
finally:
    w.close()
