"""Seeded schedule generators for the router driver (always scaled real time)."""
import random


def S(op, **kw):
    d = {'op': op}
    d.update(kw)
    return d


class RGen:
    def __init__(self, seed):
        self.rng = random.Random(seed)
        self.pid = 0

    def newpid(self, k=1):
        p = self.pid % 60000 + 1
        self.pid += k
        return p

    def pace(self, run, n=40, group=False):
        """C13: senders x bursts x busy indications."""
        rng = self.rng
        pause = rng.choice([0, 100, 2000, 2000, 5000, 20000])
        k = rng.choice([1, 2, 3, 4, 8])
        cfg = dict(pause=pause, retain=rng.choice([0, 1, 2, 5]), mode='real', q=rng.choice([200, 500, 1500]), slack=300, T=200_000, group=group)
        st = []
        for _ in range(n):
            c = rng.random()
            if c < 0.62:
                st.append(S('send', g=rng.randrange(1, k + 1), p=self.newpid()))
            elif c < 0.80:
                # (wait times over the whole 16-bit range of the field: the hold-off is capped, never wrapped)
                st.append(S('busy', n=rng.choice([0, 1, 3, 10, 20, 49, 50, 51, 100, 500, 1000, 32767, 32768, 65487, 65500, 65534, 65535]), i=rng.choice([0, 0, 1])))
                if rng.random() < 0.3:   # back-to-back storm
                    st.append(S('busy', n=rng.choice([0, 5, 60]), i=1))
            elif c < 0.90:
                st.append(S('adv', d=rng.choice([pause // 2 + 50, pause + 100, 3 * pause + 500, 30_000])))
            else:
                st.append(S('ind', p=self.newpid()))
        st.append(S('adv', d=120_000))
        st.append(S('drain'))
        return dict(run=run, cfg=cfg, steps=st, tag='pace')

    def busy_in_resend(self, run):
        """C13: a busy indication arrives while the messages a lost indication asked for are being retransmitted: the
        retransmissions queue behind the back-off like every other transmission."""
        rng = self.rng
        pause = rng.choice([2000, 3000, 5000])
        n = rng.choice([5, 6, 8])
        cfg = dict(pause=pause, retain=8, mode='real', q=rng.choice([500, 1500]), slack=300, T=200_000)
        st = []
        for _ in range(n):
            st.append(S('send', g=1, p=self.newpid()))
        st += [S('adv', d=pause * (n + 1) + 2000), S('lost', n=n), S('adv', d=pause + pause // 2), S('busy', n=rng.choice([10, 20, 30]), i=1),
               S('adv', d=pause * (n + 2) + 60_000), S('send', g=1, p=self.newpid()), S('adv', d=pause + 20_000), S('drain')]
        return dict(run=run, cfg=cfg, steps=st, tag='pace-busy-in-resend')

    def history(self, run, n=50, group=False):
        """C14: sends (some failing) x lost indications x busy x readers x close."""
        rng = self.rng
        pause = rng.choice([0, 200, 1000])
        retain = rng.choice([0, 1, 2, 3, 5, 8, 64])
        k = rng.choice([1, 1, 2, 3])
        cfg = dict(pause=pause, retain=retain, mode='real', q=rng.choice([300, 800]), slack=300, T=200_000, group=group, linger=60_000)
        st = []
        reader = False
        failing = False
        for _ in range(n):
            c = rng.random()
            if c < 0.50:
                st.append(S('send', g=rng.randrange(1, k + 1), p=self.newpid()))
            elif c < 0.64:
                st.append(S('lost', n=rng.choice([0, 1, 1, 2, 3, retain or 32, (retain or 32) + 1, 200, 65535])))
                st.append(S('adv', d=(pause + 300) * min(8, (retain or 32)) + 2000))    # let the resend finish
            elif c < 0.70:
                st.append(S('busy', n=rng.choice([0, 2, 10]), i=1))
            elif c < 0.78:
                failing = not failing
                st.append(S('failsend', act='on' if failing else 'off'))
            elif c < 0.88:
                st.append(S('ind', p=self.newpid()))
            elif c < 0.93:
                st.append(S('recv'))
            elif c < 0.96:
                reader = not reader
                st.append(S('reader', act='on' if reader else 'off'))
            else:
                st.append(S('adv', d=pause + 500))
        if failing:
            st.append(S('failsend', act='off'))
        if reader:
            st.append(S('reader', act='off'))
        st += [S('adv', d=60_000), S('drain')]
        c = rng.random()
        if c < 0.35:
            st += [S('close'), S('adv', d=3000), S('recv', n=1), S('recv', n=1)]
        elif c < 0.6:
            # Close while the worker is held up behind a back-off and an indication is already in flight on the socket
            st += [S('busy', n=rng.choice([10, 20]), i=1), S('lost', n=1), S('ind', p=self.newpid()), S('adv', d=1000), S('close'),
                   S('adv', d=70_000), S('recv', n=1), S('recv', n=1)]
        return dict(run=run, cfg=cfg, steps=st, tag='history')

    def burst(self, run, size, mode, group=False):
        """C17 (router): bursts of indications x consumer behaviours."""
        rng = self.rng
        cfg = dict(pause=0, retain=4, mode='real', q=400, slack=300, T=100_000, group=group)
        st = []
        if mode == 'blocked':
            # the consumer becomes ready while the receive worker is held up behind a Send's pause (it is handling a
            # busy / lost indication): telegrams accepted before must still come out before telegrams accepted after
            cfg['pause'] = rng.choice([2000, 4000])
            for _ in range(max(4, size // 3)):
                k = rng.randrange(1, 4)
                st.append(S('burst', n=k, p=self.newpid(k)))             # nobody reads: kept aside
                st.append(S('send', g=1, p=self.newpid()))               # the sender holds the send mutex for the pause
                st.append(S('busy', n=0, i=0) if rng.random() < 0.6 else S('lost', n=1))   # worker now waits for the mutex
                st.append(S('ind', p=self.newpid()))                     # already queued on the socket behind it
                st.append(S('reader', act='on'))                         # the consumer becomes ready meanwhile
                st.append(S('adv', d=cfg['pause'] * 3 + 2000))
                st.append(S('reader', act='off'))
            st.append(S('drain'))
            return dict(run=run, cfg=cfg, steps=st, tag='rburst-' + mode)
        if mode == 'ready':
            st.append(S('reader', act='on'))
        left = size
        while left > 0:
            k = left if mode != 'intermittent' else min(left, rng.randrange(1, 5))
            if mode == 'ready':
                for i in range(k):
                    st.append(S('ind', p=self.newpid()))
            else:
                st.append(S('burst', n=k, p=self.newpid(k)))
            left -= k
            if mode == 'intermittent':
                for _ in range(rng.randrange(0, 3)):
                    st.append(S('recv'))
        if mode == 'ready':
            st += [S('adv', d=3000), S('reader', act='off')]
        st.append(S('drain'))
        return dict(run=run, cfg=cfg, steps=st, tag='rburst-' + mode)
