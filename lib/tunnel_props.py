"""Per-property plans for the tunnel-client checks (C03 C04 C05 C09 C10 C17)."""
import json, os, time, re
import vlib, tungen, tlcsched, tunnel_check, router_props

# exhaustive configurations (Tunnel.tla), spec x observer simulation configs (MC_Tun.tla)
# quick: configurations explored COMPLETELY in seconds (deterministic state counts); thorough: the same plus larger ones,
# those that do not end are time-boxed (BOXED) and report complete = false
MC = {'C03': (['MC_C03_q.cfg', 'MC_C03_2s.cfg', 'MC_C03_tcp.cfg', 'MC_C05_ws.cfg'], ['MC_C03_q.cfg', 'MC_C03_2s.cfg', 'MC_C03_tcp.cfg', 'MC_C05_ws.cfg', 'MC_C03_t.cfg']),
      'C04': (['MC_C04_q.cfg'], ['MC_C04_q.cfg', 'MC_C05_wr.cfg', 'MC_C04_t.cfg']),
      'C05': (['MC_C05_q.cfg', 'MC_C05_ws.cfg'], ['MC_C05_q.cfg', 'MC_C05_ws.cfg', 'MC_C05_wf.cfg', 'MC_C05_wr.cfg', 'MC_C05_t.cfg']),
      'C09': (['MC_C09_q.cfg', 'MC_C09_wf.cfg'], ['MC_C09_q.cfg', 'MC_C09_wf.cfg', 'MC_C09_m.cfg', 'MC_C09_t.cfg']),
      'C10': (['MC_C10_q.cfg'], ['MC_C10_q.cfg', 'MC_C10_m.cfg', 'MC_C10_b.cfg', 'MC_C10_t.cfg']),
      'C17': (['MC_C17_q.cfg'], ['MC_C17_q.cfg'])}
BOXED = {'MC_C03_t.cfg', 'MC_C04_t.cfg', 'MC_C05_t.cfg', 'MC_C09_t.cfg', 'MC_C10_b.cfg', 'MC_C10_t.cfg'}
SIM = {'C03': ['SIM_C03.cfg', 'SIM_tcp.cfg'], 'C04': ['SIM_C04.cfg', 'SIM_tcp.cfg'], 'C05': ['SIM_C05.cfg'], 'C09': ['SIM_C09.cfg', 'SIM_wf.cfg'],
       'C10': ['SIM_C10.cfg', 'SIM_all.cfg'], 'C17': ['SIM_C17.cfg']}

ASSUME = {
    'C03': ['in virtual time (synctest bubble) one sender goroutine is active at a time; contention on the sequence mutex is exercised in scaled real time where only lower time bounds are exact',
            'an acknowledgement taken in up to one resend interval before a request was sent may be the consumed one',
            'requests of Sends that were already inside Send when a reconnect completed may still go out as old-epoch requests (old channel and old numbering)'],
    'C04': ['"the immediately preceding sequence number" is expected-1 modulo 256, also right after a (re)connect',
            'NothingLost is judged at drain points while the tunnel is open'],
    'C05': ['rule-following simulated gateway, datagrams do not outlive a connection epoch, no forged frames',
            'known finding C05-F1 (sequence number reused after a timed-out Send) is reported as KNOWN-FINDING, every other witness is a violation'],
    'C09': ['heartbeat timing is judged exactly in virtual time; when several heartbeat workers overlap (H < T) which of them consumed a response is not observable and the reconnect-cause clause is lenient',
            'the first heartbeat of an epoch that began while a Send was pending may be up to T late (requestConn waits for the sequence mutex)'],
    'C10': ['Close bound = (2 + number of sender goroutines) x T + R: a reconnect in progress queues behind every pending Send on the sequence mutex',
            'goroutine leaks are observed by synctest (bubble cannot end) and by a goroutine census at quiescence; data races by the race detector on the same schedules (thorough tier)'],
    'C17': ['known finding C17-F1 (overflow deliveries overtaken before their goroutine reaches the channel) is reported as KNOWN-FINDING; in real time every overtaking of an overflow delivery is attributed to it'],
}


def schedules(pid, tier, seed):
    """Random-walk and directed schedules per property: list of (mode, runs)."""
    g = tungen.Gen(seed * 7919 + int(pid[1:]))
    q = tier == 'quick'
    rid = [0]

    def nid():
        rid[0] += 1
        return rid[0]
    bub, real = [], []
    if pid == 'C03':
        n = 60 if q else 400
        for i in range(n):
            bub.append(g.sender(nid(), wrap=[254, 255, 256, 510][i % 4] if i % 6 == 5 else 0, tcp=(i % 7 == 6)))
        for i in range(6 if q else 40):
            bub.append(g.ack_once(nid()))
        for status in (list(range(1, 256)) if not q else [1, 2, 0x21, 0x22, 0x23, 0x24, 0x25, 0x26, 0x27, 0x29, 0x2a, 0x30, 0x7f, 0x80, 0x99, 0xfe, 0xff]):
            bub.append(g.ack_status(nid(), status))   # (a matching acknowledgement with every error status)
        for i in range(16 if q else 96):
            real.append(g.senders_rt(nid(), reconnect=(i % 2 == 1), group=(i % 4 == 2)))
    elif pid == 'C04':
        n = 60 if q else 400
        for i in range(n):
            bub.append(g.receiver(nid(), wrap=[253, 255, 256][i % 3] if i % 5 == 4 else 0, tcp=(i % 7 == 6), group=(i % 9 == 8)))
        for i in range(0 if q else 4):
            bub.append(g.receiver(nid(), n=1000))
        for i in range(8 if q else 40):
            bub.append(g.ackfail_order(nid()))
    elif pid == 'C05':
        n = 60 if q else 400
        for i in range(n):
            bub.append(g.link(nid(), wrap=[254, 257][i % 2] if i % 8 == 7 else 0))
        for i in range(6 if q else 30):
            bub.append(g.tele_across_reconnect(nid()))
        for i in range(12 if q else 80):   # the application reads at its own pace (stalled / intermittent): parked deliveries
            bub.append(g.burst(nid(), 3 + (i * 5) % 40, ['intermittent', 'stalled'][i % 2]))
        for i in range(16 if q else 96):
            real.append(g.senders_rt(nid(), reconnect=False, group=(i % 3 == 2)))   # (every third through GroupTunnel)
    elif pid == 'C09':
        n = 80 if q else 500
        for i in range(n):
            bub.append(g.heartbeat(nid()))
        for status in ([0, 0x21, 0x22, 0x23, 0x24, 0x25, 0x26, 0x27, 0x29, 0x99] if q else list(range(0, 256))):
            bub.append(g.hb_foreign(nid(), status))   # (foreign-channel frames of every status while a heartbeat is pending)
        for i in range(10 if q else 60):   # transient write errors of DiscRes / ConnStateReq / ConnReq
            bub.append(g.writefail_conn(nid()))
        for i in range(8 if q else 48):
            real.append(g.senders_rt(nid(), reconnect=True))
    elif pid == 'C10':
        n = 80 if q else 500
        fams = [g.sender, g.receiver, g.link, g.heartbeat]
        for i in range(n):
            bub.append(g.with_close(fams[i % 4](nid())))
        for i in range(4 if q else 24):
            bub.append(g.close_in_reconnect(nid()))
        for i in range(6 if q else 30):   # Close with 20..80 accepted telegrams still parked (nobody reads Inbound)
            bub.append(g.close_with_parked(nid(), [33, 48, 20, 64, 80, 40][i % 6]))
        for i in range(4 if q else 16):
            bub.append(g.close_on_channel(nid(), [0, 255, 0, 1][i % 4]))
        for i in range(3 if q else 12):
            real.append(g.close_after_disc_in_heartbeat_rt(nid()))
    elif pid == 'C17':
        n = 60 if q else 300
        for i in range(n):
            bub.append(g.burst(nid(), 2 + (i * 7) % 63, ['ready', 'stalled', 'intermittent'][i % 3], group=(i % 5 == 4), tcp=(i % 11 == 10)))
        for i in range(10 if q else 60):   # a ready application, one failed acknowledgement write, repetitions of later telegrams
            bub.append(g.ackfail_order(nid(), group=(i % 3 == 2)))
        for i in range(10 if q else 60):   # the adversarial request streams of C04 (write errors, repetitions, reconnects) are judged for order too
            bub.append(g.receiver(nid(), n=25, group=(i % 4 == 3)))
    # directed schedules (replays of earlier witnesses)
    dpath = os.path.join(vlib.VERIF, 'sched', pid.lower() + '_directed.ndjson')
    if os.path.exists(dpath):
        for l in open(dpath):
            if l.strip():
                r = json.loads(l)
                (real if r['cfg'].get('mode') == 'real' else bub).append(r)
    return bub, real


MODEL_NOTES = []


def model_note(msg, out):
    """A problem found on the MODEL (invariant violated on the specification, observer flagging a behaviour
    of the specification, TLC failure) is reported and recorded, but it is never a verdict about the code and
    does not change the exit status: verdicts come from traces of the real client only."""
    tail = ' | '.join(l.strip() for l in out.strip().splitlines()[-4:])[-400:]
    MODEL_NOTES.append(msg + ' :: ' + tail)
    print('MODEL-NOTE: ' + msg)


def run_mc(work, pid, tier):
    """Exhaustive TLC runs on the implementation-shaped specification."""
    cfgs = MC[pid][0 if tier == 'quick' else 1]
    states = trans = 0
    detail = []
    for c in cfgs:
        budget = 150 if c in BOXED else 600      # the others end by themselves (5-80 s measured); 600 s is a safety net
        rc, out = vlib.tlc(work, 'Tunnel', cfg=c, workers=vlib.NCPU, timeout=budget + 120, name='mc_' + c,
                           env_extra={'JAVA_TOOL_OPTIONS': '-Dtlc2.TLC.stopAfter=%d' % budget})
        if 'Error:' in out:
            model_note('model checking %s: TLC reports an error or an invariant violated by the SPECIFICATION' % c, out)
        st, gen = vlib.tlc_states(out)
        left = re.findall(r'(\d+) states left on queue', out)
        complete = bool(left) and int(left[-1]) == 0 and 'Error:' not in out
        states += st
        trans += gen
        detail.append(dict(cfg=c, distinct_states=st, states_generated=gen, complete=complete))
    return states, trans, detail


# actions of Tunnel.tla a property's model checking is about: each must be taken in the property's quick configuration(s),
# otherwise the invariants were checked vacuously (thorough tier: TLC -coverage, reported in the evidence)
REQUIRED = {'C03': ['SendFirstTx', 'SendResend', 'SendTimeout', 'SendTakeAck', 'AckOfferExpire', 'ProcTake', 'ConnResend', 'SendTcpReturn'],
            'C04': ['ProcTake', 'ProcPush', 'ProcAckOut', 'ParkReach', 'AppRecvRet'],
            'C05': ['SendFirstTx', 'SendResend', 'SendTakeAck', 'ProcPush', 'ProcAckOut', 'AppRecvRet'],
            'C09': ['ProcHbTick', 'HbResend', 'HbTimeout', 'HbTakeRes', 'ProcFailSignal', 'ServeReconnect', 'ConnLock'],
            'C10': ['CloseDisc', 'CloseWait', 'ServeExit', 'SendAckClosed', 'SendFirstTx'],
            'C17': ['ProcPush', 'ParkReach', 'AppRecvRet']}
COV_RE = re.compile(r'^<(\w+) line \d+, col \d+ to line \d+, col \d+ of module Tunnel>: (\d+):(\d+)', re.M)


def run_coverage(work, pid):
    """TLC -coverage on the quick configurations: how often each action of the specification was taken."""
    taken = {}
    for c in MC[pid][0]:
        rc, out = vlib.tlc(work, 'Tunnel', cfg=c, workers=vlib.NCPU, timeout=900, name='cov_' + c, extra=['-coverage', '1'])
        for name, distinct, gen in COV_RE.findall(out):
            if name not in ('Init', 'Next'):
                taken[name] = max(taken.get(name, 0), int(gen))
    never = [a for a in REQUIRED[pid] if taken.get(a, 0) == 0]
    if never:
        model_note('vacuity: actions %s are never taken in the quick configurations of %s' % (never, pid), '')
    return dict(action_states_generated=taken, required_actions=REQUIRED[pid], required_actions_never_taken=never)


def run_sim(work, pid, tier, seed):
    """Spec x observers: random behaviours of Tunnel.tla fed through TunObs; no clause should be flagged."""
    n = 1500 if tier == 'quick' else 40000
    tot = 0
    for c in SIM[pid]:
        for attempt, workers in enumerate((vlib.NCPU, 1)):
            rc, out = vlib.tlc(work, 'MC_Tun', cfg=c, workers=workers, timeout=900, name='sim_%s_%d' % (c, attempt),
                               extra=['-simulate', 'num=%d' % max(1, n // workers), '-depth', '80', '-seed', str(seed)])
            if 'unexpected exception' in out and attempt == 0:
                continue      # sporadic TLC failure in multi-worker simulation mode: once more with one worker
            break
        if 'is violated' in out or 'Error:' in out:
            model_note('specification x observers (%s): an observer flags a behaviour of the SPECIFICATION, or TLC failed' % c, out)
        m = re.search(r'The number of states generated: (\d+)', out)
        tot += int(m.group(1)) if m else 0
    return tot


def check(pid, tier):
    t0 = time.time()
    seed = vlib.seed()
    w = vlib.Work(pid)
    try:
        known = vlib.load_known()
        states, trans, mcdetail = run_mc(w, pid, tier)
        coverage = run_coverage(w, pid) if tier == 'thorough' else None
        simstates = run_sim(w, pid, tier, seed)
        binary = vlib.build_test(w, './drive/', w.path('drive.test'))
        bub, real = schedules(pid, tier, seed)
        # behaviours generated by TLC from the specification, projected onto environment choices
        ntlc = 150 if tier == 'quick' else 1500
        tlcruns = []
        base = 100000
        for c in SIM[pid][:1]:
            rs, st = tlcsched.generate(w, c, ntlc, 80, seed, first_id=base, tag='tlc:' + c)
            tlcruns += rs
            base += len(rs)
        # ... and from the conformance configuration (one sender, client steps urgent): these are reproducible
        # step by step, so the events the specification predicts are compared with what the real client did
        confruns, st = tlcsched.generate(w, 'CONF_%s.cfg' % pid, ntlc, 80, seed + 1, first_id=base, tag='conf:CONF_%s.cfg' % pid,
                                         prefix_every=3 if tier == 'quick' else 2)
        if pid in ('C05', 'C09', 'C04'):   # transient socket write errors: the specification says what each write site does with the error
            wfc = 'CONF_wf5.cfg' if pid == 'C05' else 'CONF_wf.cfg'    # (C05 is about one connection epoch)
            more, st = tlcsched.generate(w, wfc, ntlc // 3, 80, seed + 3, first_id=base + len(confruns), tag='conf:' + wfc)
            confruns += more
        if pid == 'C03':     # the TCP clause: behaviours of the TCP-mode specification (no acknowledgements, one transmission per Send)
            more, st = tlcsched.generate(w, 'CONF_tcp.cfg', ntlc // 3, 80, seed + 2, first_id=base + len(confruns), tag='conf:CONF_tcp.cfg')
            confruns += more
        tlcruns += confruns
        if tier == 'thorough':
            # the same behaviours positioned around the 255 -> 0 wrap of the real modulus
            pass
        res = tunnel_check.drive_and_judge(w, binary, bub + tlcruns, 'bubble', 'bub')
        allres = [res]
        # conformance of the implementation-shaped specification: predicted vs. real observable events
        ceq, ccmp, cdiff = tunnel_check.conformance(confruns, res)
        for d in cdiff[:3]:
            print('SPEC-DRIFT property=%s run=%d t=%d predicted=%s real=%s' % (pid, d['run'], d['t'], d['predicted'], d['real']))
        if real:
            allres.append(tunnel_check.drive_and_judge(w, binary, real, 'real', 'real'))
        rruns = []
        if pid == 'C17':   # the router half: bursts through knx.Router / knx.GroupRouter (real time)
            rruns, rres = router_props.run_router(w, 'C17', tier, seed, binary)
            allres.append(rres)
        if pid == 'C10' and tier == 'thorough':
            racebin = vlib.build_test(w, './drive/', w.path('drive_race.test'), race=True)
            rr = tunnel_check.drive_and_judge(w, binary, (bub + tlcruns)[:300], 'bubble', 'race', racebin=racebin)
            allres.append(rr)
        viol, kf = [], {}
        nruns = nev = nstuck = 0
        for r in allres:
            v, k = tunnel_check.judge(pid, r, known)
            viol += v
            for t, bs in k.items():
                kf.setdefault(t, []).extend(bs)
            nev += r['events']
            nstuck += len(r['stuck'])
            nruns += r['validated']
            if pid == 'C10':
                for kind, tag in (('crashes', 'C10.NoPanic'), ('hangs', 'C10.NoHang'), ('races', 'C10.NoRace')):
                    pass  # synthetic Crash/Hang/Race events are judged by the observer like any other event
        # known findings: print one line per listed finding
        for f in known.get('findings', []):
            if f['property'] == pid:
                print('KNOWN-FINDING: property=%s %s witnessed=%d %s' % (pid, f['id'], len(kf.get(f['tag'], [])), f['what']))
        rc = 0
        replay = None
        if viol:
            tag, b = viol[0]
            replay = vlib.save_replay(pid, '%s-seed%d-run%d' % (tag.replace('.', '_'), seed, b['run']), tunnel_check.witness(b))
            print('VIOLATION property=%s replay=%s' % (pid, replay))
            print('  clauses flagged: %s' % sorted(set(t for t, _ in viol)))
            rc = 1
        allruns = bub + tlcruns + real + rruns
        distinct = len(set(json.dumps(r['steps'], sort_keys=True) for r in allruns if len(r['steps']) > 2))
        cov = dict(states=states + simstates, transitions=trans, traces_validated_against_impl=nruns,
                   samples=[tunnel_check.sample_of(r) for r in (bub[:1] + tlcruns[:1] + real[:1])],
                   evaluations=len(allruns), distinct_nontrivial=distinct,
                   rule='one evaluation = one schedule (environment choices) executed against the real knx.Tunnel and validated by TLC against the '
                        'TunObs observers; distinct = distinct step sequences with more than two steps',
                   model_checking=mcdetail, action_coverage=coverage, spec_x_observer_states=simstates, trace_events=nev,
                   tlc_generated_behaviours=len(tlcruns), random_walk_schedules=len(bub), real_time_schedules=len(real),
                   bubble_stuck_runs=nstuck, conformance=dict(behaviours_compared=ccmp, real_client_matched_specification=ceq, predicted_events_compared=tunnel_check.CONF_STATS.get('events', 0), compared_on_a_prefix_only=tunnel_check.CONF_STATS.get('partial', 0), first_differences=cdiff), model_notes=list(MODEL_NOTES), known_findings={t: len(b) for t, b in kf.items()}, exhaustive=False)
        vlib.write_evidence(pid, tier, 'model_checking', cov, ASSUME[pid], time.time() - t0, len(viol))
        print('%s %s: %d schedules on the real client (%d TLC-generated), %d trace events, model: %d states; '
              'specification conformance %d/%d behaviours; %s' % (
                  pid, tier, len(allruns), len(tlcruns), nev, states + simstates, ceq, ccmp, 'VIOLATIONS' if viol else 'held'))
        return rc
    finally:
        w.close()
