import sys, json, os, time
sys.path.insert(0, os.path.dirname(__file__))
import vlib, rtrgen
from collections import Counter
fam = sys.argv[1]; n = int(sys.argv[2]); seed = int(sys.argv[3]) if len(sys.argv) > 3 else 1
w = vlib.Work('exprtr')
try:
    g = rtrgen.RGen(seed)
    runs = []
    for i in range(n):
        if fam == 'pace': r = g.pace(i+1)
        elif fam == 'history': r = g.history(i+1)
        elif fam == 'burst': r = g.burst(i+1, 2 + i % 30, ['ready','stalled','intermittent'][i%3], group=(i%4==3))
        runs.append(r)
    sched = w.path('sched.ndjson')
    with open(sched, 'w') as f:
        for r in runs: f.write(json.dumps(r) + '\n')
    b = vlib.build_test(w, './drive/', w.path('drive.test'))
    t0 = time.time()
    info = vlib.run_driver(b, 'TestRouterSchedules', sched, w.path('trace.ndjson'), mode='real')
    print('drive', round(time.time()-t0,1), {k: len(v) for k, v in info.items()}, sum(1 for _ in open(w.path('trace.ndjson'))), 'events')
    for k in info:
        for c in info[k][:1]: print(k, c['run'], c['text'][-1500:])
    rc, out = vlib.tlc(w, 'Trace_Rtr', env_extra={'TRACE': w.path('trace.ndjson')})
    bad, notes, done = vlib.parse_flags(out)
    print('done', done, 'bad', len(bad)); print(Counter(t for b in bad for t in b['tags']))
    if done is None: print(out[-3000:])
    os.makedirs('/tmp/w/exp', exist_ok=True)
    import shutil; shutil.copy(w.path('trace.ndjson'), '/tmp/w/exp/trace.ndjson'); shutil.copy(sched, '/tmp/w/exp/sched.ndjson')
    json.dump(bad, open('/tmp/w/exp/bad.json','w'))
finally:
    w.close()
