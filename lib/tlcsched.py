"""Projects TLC-generated behaviours of Tunnel.tla onto driver schedules.

`tlc -simulate file=...` writes one module per behaviour; every state carries the history
variable `act` = [n |-> action kind, g |-> goroutine, f |-> frame]. Only ENVIRONMENT
choices are projected (application calls, network deliver / lose / dup, gateway telegram /
resend / give-up, injected frames, clock ticks): the client's own steps are what the real
client is expected to do by itself. Frames are addressed by service type and relative
position, sequence numbers relative to the live counters, so a path of the modulus-4 model
runs against the real modulus-256 client."""
import os, re, subprocess, json, shutil, glob
import vlib

EV_RE = re.compile(r'/\\ ev = \[(.*?)\]\n(?=/\\|\n|$)', re.S)
ACT_RE = re.compile(r'/\\ act = \[(.*?)\]\n(?=/\\|\n|$)', re.S)
GW_RE = re.compile(r'/\\ gw = \[(.*?)\]\n', re.S)


def fld(rec, k, default=None):
    m = re.search(r'\b%s \|-> ("[^"]*"|-?\d+|TRUE|FALSE)' % k, rec)
    if not m:
        return default
    v = m.group(1)
    if v.startswith('"'):
        return v[1:-1]
    if v in ('TRUE', 'FALSE'):
        return v == 'TRUE'
    return int(v)


def parse_behaviour(path):
    txt = open(path).read()
    states = re.split(r'\nSTATE_\d+ ==', txt)[1:]
    out = []
    for st in states:
        m = ACT_RE.search(st + '\n')
        if not m:
            continue
        rec = m.group(1)
        fm = re.search(r'f \|-> \[(.*?)\]', rec, re.S)
        f = fm.group(1) if fm else ''
        g = GW_RE.search(st)
        em = EV_RE.search(st + '\n')
        evr = em.group(1) if em else ''
        ev = dict(k=fld(evr, 'k', 'none'), t=fld(evr, 't', 0), svc=fld(evr, 'svc', ''), ch=fld(evr, 'ch', -1), seq=fld(evr, 'seq', -1),
                  st=fld(evr, 'st', -1), s=fld(evr, 's', ''))
        nm = re.search(r'/\\ now = (\d+)', st)
        epm = re.search(r'/\\ epoch = (\d+)', st)
        out.append(dict(now=int(nm.group(1)) if nm else 0, epoch=int(epm.group(1)) if epm else 0, ev=ev, n=fld(rec.replace(fm.group(0), '') if fm else rec, 'n'), g=fld(rec.replace(fm.group(0), '') if fm else rec, 'g', 0),
                        svc=fld(f, 'svc', ''), ch=fld(f, 'ch', -1), seq=fld(f, 'seq', -1), st=fld(f, 'st', -1), pid=fld(f, 'pid', -1),
                        gwch=fld(g.group(1), 'ch', 0) if g else 0))
    return out


def project(acts, unit, consts, run_id, tag, prefix=None):
    """acts: parsed behaviour; unit: microseconds per model tick."""
    steps = [dict(op='new')]
    ticks = 0
    choice = None    # instant of the first choice made inside the client (Go select among several ready cases / timers)

    def flush_ticks():
        nonlocal ticks
        if ticks:
            steps.append(dict(op='adv', d=ticks * unit))
            ticks = 0
    prefixed = prefix is None
    for i, a in enumerate(acts[1:], 1):
        n = a['n']
        if not prefixed and acts[i - 1]['epoch'] >= 1 and n not in ('internal', 'timer', 'take', 'choice'):
            # the connection stands and the client is quiet: use up sequence numbers so that the behaviour continues
            # just below the wrap of the real 8-bit counters (the model counts modulo 4)
            steps.append(dict(op='prefix', n=prefix[0], i=prefix[1]))
            prefixed = True
        if n == 'tick':
            ticks += 1
            continue
        if n == 'choice' and choice is None:
            choice = a['now'] * unit
        if n in ('internal', 'timer', 'take', 'new', 'choice'):
            continue
        flush_ticks()
        if n == 'send':
            steps.append(dict(op='send', g=a['g'], p=1000 + i))
        elif n == 'recv':
            steps.append(dict(op='recv1'))
        elif n == 'close':
            steps.append(dict(op='close', g=a['g']))
        elif n in ('c2g-deliver', 'g2c-deliver', 'c2g-lose', 'g2c-lose', 'c2g-dup', 'g2c-dup'):
            d, act = n.split('-')
            if d == 'c2g' and act == 'deliver' and a['svc'] == 'ConnReq':
                steps.append(dict(op='gwpolicy', s='nextchan', n=a['gwch'] if a['gwch'] > 0 else 1))
            st = dict(op='net', dir=d, act=act, svc=a['svc'], i=0, exact=True)
            if a['svc'] in ('TunnelReq', 'TunnelRes') and a['seq'] >= 0:
                st.update(q=a['seq'] + 1, mod=consts.get('M', 4))
            if a['st'] >= 0:
                st['qst'] = a['st'] + 1
            if a['ch'] >= 0:
                st['qch'] = a['ch'] + 1
            steps.append(st)
        elif n == 'c2g-fault':
            mode = ('silent', 'err', 'foreign')[a['g']]
            if a['svc'] == 'ConnStateReq':
                steps.append(dict(op='gwpolicy', s='hb', act=mode, st=33))
                steps.append(dict(op='net', dir='c2g', act='deliver', svc='ConnStateReq', i=0))
                steps.append(dict(op='gwpolicy', s='hb', act='ok', st=33))
            else:
                steps.append(dict(op='gwpolicy', s='conn', act=dict(silent='silent', err='refuse', foreign='busy')[mode]))
                steps.append(dict(op='net', dir='c2g', act='deliver', svc='ConnReq', i=0))
                steps.append(dict(op='gwpolicy', s='conn', act='ok'))
        elif n == 'wfail':    # a transient local error is armed for the next write of a frame of this service type
            steps.append(dict(op='sockfail', act='once', svc=a['svc']))
        elif n == 'gwtele':
            steps.append(dict(op='gwtele', p=2000 + i))
        elif n == 'gwresend':
            steps.append(dict(op='gwresend'))
        elif n == 'gwgiveup':
            steps.append(dict(op='gwgiveup'))
        elif n == 'inject':
            steps.append(dict(op='inject', svc=a['svc'], ch='own' if a['ch'] == 1 else 'other', rel=a['seq'], st=a['st'], p=3000 + i, base='ctr'))
    flush_ticks()
    cfg = dict(R=consts['R'] * unit, T=consts['T'] * unit, H=(consts['H'] * unit if consts.get('EnableHB') else 1_500_000_000),
               tcp=bool(consts.get('UseTCP')))
    # the observable client events the SPECIFICATION predicts for this behaviour (conformance comparison)
    pred = [[a['ev']['t'] * unit // 1000, a['ev']['k'], a['ev']['svc'], a['ev']['ch'], a['ev']['seq'],
             a['ev']['st'] if a['ev']['k'] != 'SendRet' else a['ev']['s']]
            for a in acts if a['ev']['k'] in ('Out', 'In', 'SendRet', 'Recv', 'CloseRet')]
    return dict(run=run_id, cfg=cfg, steps=steps, tag=tag, predicted=pred, choice=choice, pred_end=acts[-1]['now'] * unit if acts else 0)


def read_consts(cfgpath):
    c = {}
    for l in open(cfgpath):
        m = re.match(r'\s*(\w+)\s*=\s*(\S+)\s*$', l)
        if m:
            v = m.group(2)
            c[m.group(1)] = True if v == 'TRUE' else False if v == 'FALSE' else (int(v) if re.fullmatch(r'-?\d+', v) else v)
    return c


def generate(work, cfg, num, depth, seed, unit=1000, first_id=1, tag='tlc', prefix_every=0):
    """Simulates Tunnel.tla under cfg (a file in spec/) and returns (runs, stats)."""
    d = work.path('tlcgen_%s_%d' % (cfg.replace('.cfg', ''), seed))
    os.makedirs(d, exist_ok=True)
    for f in os.listdir(vlib.SPEC):
        if f.endswith('.tla') or f.endswith('.cfg'):
            shutil.copy(os.path.join(vlib.SPEC, f), d)
    # behaviours are generated from the plain specification (no observers, no invariants)
    lines = [l for l in open(os.path.join(d, cfg)) if not l.startswith('INVARIANT') and not l.startswith('VIEW')]
    lines = [('SPECIFICATION Spec\n' if l.startswith('SPECIFICATION') else l) for l in lines]
    open(os.path.join(d, 'gen.cfg'), 'w').writelines(lines)
    p = subprocess.run(['timeout', '300', 'tlc', '-workers', '1', '-simulate', 'file=%s/beh,num=%d' % (d, num), '-depth', str(depth),
                        '-seed', str(seed), '-metadir', os.path.join(d, 'md'), '-config', 'gen.cfg', 'Tunnel.tla'],
                       cwd=d, stdout=subprocess.PIPE, stderr=subprocess.STDOUT, text=True)
    files = sorted(glob.glob(os.path.join(d, 'beh_*')))
    if not files:
        raise vlib.Inconclusive('TLC produced no behaviours:\n' + p.stdout[-2000:])
    consts = read_consts(os.path.join(d, cfg))
    runs = []
    for k, f in enumerate(files):
        acts = parse_behaviour(f)
        pre = None
        if prefix_every and k % prefix_every == prefix_every - 1 and consts.get('MaxEpoch', 1) >= 1 and not consts.get('EnableHB'):
            # (only where the behaviour cannot reconnect: a new epoch restarts the real counters at 0)
            pre = [(254, 0), (0, 254), (253, 255), (255, 253)][(k // prefix_every) % 4]
            if not consts.get('EnableG2C'):
                pre = (pre[0], 0)
            if consts.get('MaxSend', 0) == 0:
                pre = (0, pre[1])
        runs.append(project(acts, unit, consts, first_id + k, tag, prefix=pre))
    m = re.search(r'(\d+) states checked', p.stdout)
    return runs, dict(behaviours=len(files), states=int(m.group(1)) if m else 0)
