"""Replay table for describe / discover: TLC enumerates EVERY behaviour of Lookup.tla (every arrival script within the
bounds) and prints, at each terminal state, the script and the result the specification allows there (MC_LookupGen.tla).
Scripts with several terminal states (a response arriving exactly at the deadline may or may not be taken) get the set
of allowed results. The Go driver (netdrv TestC20Table) replays scripts against the real knx.DescribeTunnel / knx.Discover
over loopback / multicast; Trace_Codec.tla accepts a run iff what the call returned is one of the allowed results."""
import json, os, re, random
import vlib

RES_RE = re.compile(r'^<<"RES", "(.*)">>\s*$', re.M)


def table(work, timeout_ticks, maxarr):
    rows = []
    states = 0
    for op, disc in (('describe', 'FALSE'), ('discover', 'TRUE')):
        text = ('\\* written by lib/lookupgen.py\nSPECIFICATION Spec\nCONSTANTS\n  Timeout = %d\n  MaxArr = %d\n  Discover = %s\nINVARIANTS Emit\nCHECK_DEADLOCK FALSE\n'
                % (timeout_ticks, maxarr, disc))
        rc, out = vlib.tlc(work, 'MC_LookupGen', cfg='gen_%s.cfg' % op, cfg_text=text, workers=1, timeout=600, name='lkgen_' + op)
        st, gen = vlib.tlc_states(out)
        states += st
        by = {}
        for m in RES_RE.findall(out):
            o = json.loads(m.replace('\\"', '"'))
            key = json.dumps(o['arr'])
            by.setdefault(key, set()).add(json.dumps(o['res']))
        if not by:
            raise vlib.Inconclusive('MC_LookupGen produced no terminal states:\n' + out[-1500:])
        for key, res in sorted(by.items()):
            rows.append(dict(op=op, ticks=timeout_ticks, arr=json.loads(key), allowed=sorted(json.loads(r) for r in res)))
    return rows, states


def write(work, tier, seed):
    """Quick: a seeded sample of the table of (Timeout 3, MaxArr 2); thorough: the complete table of (Timeout 3, MaxArr 3)."""
    rows, states = table(work, 3, 2 if tier == 'quick' else 3)
    total = len(rows)
    if tier == 'quick':
        rng = random.Random(seed)
        d = [r for r in rows if r['op'] == 'describe']
        s = [r for r in rows if r['op'] == 'discover']
        rows = rng.sample(d, min(50, len(d))) + rng.sample(s, min(30, len(s)))
    path = work.path('lookup_table.ndjson')
    with open(path, 'w') as f:
        for r in rows:
            f.write(json.dumps(r) + '\n')
    return path, len(rows), total, states
