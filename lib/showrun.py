import sys, json
path, run = sys.argv[1], int(sys.argv[2]); lo = int(sys.argv[3]) if len(sys.argv)>3 else 0; hi = int(sys.argv[4]) if len(sys.argv)>4 else 10**9
on=False
for l in open(path):
    e=json.loads(l)
    if e['k']=='Cfg': on = e['pid']==run
    if on and lo<=e['n']<=hi: print(e['n'],e['t'],e['k'],'g=%d'%e['g'],e['svc'],'ch=%d seq=%d st=%d pid=%d a=%d b=%d'%(e['ch'],e['seq'],e['st'],e['pid'],e['a'],e['b']),e['s'])
