import sys, json, os
sys.path.insert(0, os.path.dirname(__file__))
import vlib, tunnel_check
from collections import Counter
runs=[json.loads(l) for l in open(sys.argv[1]) if l.strip()]
only=set(int(x) for x in sys.argv[2:])
if only: runs=[r for r in runs if r['run'] in only]
w=vlib.Work('expsched')
try:
    b=vlib.build_test(w,'./drive/',w.path('drive.test'))
    for mode in ('bubble','real'):
        rs=[r for r in runs if (r['cfg'].get('mode') or 'bubble')==mode]
        if not rs: continue
        res=tunnel_check.drive_and_judge(w,b,rs,mode,'x'+mode)
        print(mode, len(rs), 'runs', res['events'], 'events', Counter(t for x in res['bad'] for t in x['tags']), [ (x['run'],x['n'],x['tags']) for x in res['bad']][:6])
finally:
    w.close()
