"""Shared machinery of the checks: Go driver builds, TLC runs, verdict and evidence I/O."""
import json, os, re, shutil, subprocess, sys, time, hashlib, random

VERIF = os.path.dirname(os.path.dirname(os.path.abspath(__file__)))
REPO = os.environ.get('VERIF_REPO', '/repo')   # (a scratch worktree when seeded defects are tried out in parallel; checks use /repo)
SPEC = os.path.join(VERIF, 'spec')
HARNESS = os.path.join(VERIF, 'harness')
GO = 'go1.26.8'
NCPU = os.cpu_count() or 4


class Inconclusive(Exception):
    """Machinery failure (exit 2): never a verdict."""


def goenv():
    e = dict(os.environ)
    e.update(GOFLAGS='-mod=mod', GOPROXY='off', GOSUMDB='off', GOTOOLCHAIN='local', CGO_ENABLED=e.get('CGO_ENABLED', '1'))
    return e


def seed():
    try:
        return int(os.environ.get('VERIF_SEED', '1'))
    except ValueError:
        return 1


class Work:
    """Scratch directory under /verif/.work, removed on exit."""

    def __init__(self, name):
        self.dir = os.path.join(VERIF, '.work', '%s.%d' % (name, os.getpid()))
        shutil.rmtree(self.dir, ignore_errors=True)
        os.makedirs(self.dir)

    def path(self, *p):
        return os.path.join(self.dir, *p)

    def close(self):
        shutil.rmtree(self.dir, ignore_errors=True)


def sync_gosum():
    """The harness module needs the repository's go.sum (offline module resolution)."""
    src = os.path.join(REPO, 'go.sum')
    dst = os.path.join(HARNESS, 'go.sum')
    try:
        if open(src).read() != (open(dst).read() if os.path.exists(dst) else ''):
            shutil.copy(src, dst)
    except OSError:
        pass


def build_test(work, pkg, out, race=False, tags='verif'):
    """Builds a harness test binary against /repo's working tree."""
    hdir = HARNESS
    if REPO != '/repo':
        # mutation runs: a private copy of the harness module whose replace directive points at the scratch worktree
        hdir = work.path('harness_copy')
        if not os.path.isdir(hdir):
            shutil.copytree(HARNESS, hdir)
            gm = open(os.path.join(hdir, 'go.mod')).read().replace('=> /repo', '=> ' + REPO)
            open(os.path.join(hdir, 'go.mod'), 'w').write(gm)
            shutil.copy(os.path.join(REPO, 'go.sum'), os.path.join(hdir, 'go.sum'))
    else:
        sync_gosum()
    cmd = [GO, 'test', '-c', '-tags', tags, '-o', out]
    if race:
        cmd.append('-race')
    cmd.append(pkg)
    p = subprocess.run(cmd, cwd=hdir, env=goenv(), stdout=subprocess.PIPE, stderr=subprocess.STDOUT, text=True)
    if p.returncode != 0:
        raise Inconclusive('driver build failed (does /repo still compile?):\n' + p.stdout[-4000:])
    return out


def run_driver(binary, test, sched, out, env_extra=None, nruns=None, per_run_timeout=None, mode='bubble'):
    """Runs the schedule interpreter; restarts after a run that killed the process.
    Returns a dict with crash information. Appends synthetic Crash/Hang events to the trace."""
    if os.path.exists(out):
        os.remove(out)
    if per_run_timeout is None:
        per_run_timeout = 8.0 if mode == 'bubble' else 120.0
    frm = 0
    info = {'crashes': [], 'hangs': [], 'races': [], 'stuck': []}
    if nruns is None:
        nruns = sum(1 for l in open(sched) if l.strip())
    ids = [json.loads(l)['run'] for l in open(sched) if l.strip()]
    while frm < nruns:
        env = goenv()
        env.update(VERIF_SCHED=sched, VERIF_OUT=out, VERIF_FROM=str(frm), VERIF_MODE=mode)
        if env_extra:
            env.update(env_extra)
        p = subprocess.Popen([binary, '-test.run', '^%s$' % test, '-test.timeout', '0'], env=env, stdout=subprocess.PIPE,
                             stderr=subprocess.PIPE, text=True, cwd=os.path.dirname(out))
        done = frm
        import threading
        errbuf = []
        last = [time.time()]

        blocks = []      # race-detector reports: (index of the run being executed, text)

        def rd():
            nonlocal done
            cur = None
            for line in p.stderr:
                if line.startswith('run-done '):
                    done = int(line.split()[1]) + 1
                    last[0] = time.time()
                    continue
                if cur is not None:
                    cur.append(line)
                    if line.startswith('=================='):
                        blocks.append((min(done, nruns - 1), ''.join(cur)))
                        cur = None
                    continue
                if line.startswith('WARNING: DATA RACE'):
                    cur = [line]
                    continue
                errbuf.append(line)
                if len(errbuf) > 4000:
                    del errbuf[:2000]
            if cur:
                blocks.append((min(done, nruns - 1), ''.join(cur)))
        th = threading.Thread(target=rd, daemon=True)
        th.start()
        hung = False
        while p.poll() is None:
            time.sleep(0.05)
            if time.time() - last[0] > per_run_timeout:
                hung = True
                p.kill()
                break
        p.wait()
        th.join(timeout=5)
        # every report of the race detector becomes a synthetic one-event run (Cfg, Race, RunEnd) judged by the observer;
        # its class names the known close/send pattern or is "data race"
        if blocks:
            with open(out, 'a') as f:
                f.write('\n')
                for ix, txt in blocks:
                    cls = classify_race(txt)
                    info['races'].append({'index': ix, 'run': ids[ix], 'kind': 'Race', 'class': cls, 'text': txt[-4000:]})
                    base = dict(n=999999, t=0, g=0, svc='', ch=0, seq=-1, st=-1, pid=ids[ix], hex='', a=0, b=0)
                    f.write(json.dumps(dict(base, k='Cfg', s='udp,bubble')) + '\n')
                    f.write(json.dumps(dict(base, k='Race', g=-1, ch=-1, a=-1, b=-1, s=cls)) + '\n')
                    f.write(json.dumps(dict(base, k='RunEnd', n=1, g=-1, ch=-1, pid=-1, a=ids[ix], b=-1, s='')) + '\n')
        if done >= nruns:
            break
        # the run with index `done` killed or hung the process
        txt = ''.join(errbuf)
        kind = 'Hang' if hung else 'Crash'
        if hung and mode == 'bubble':
            # synctest cannot advance virtual time while a goroutine waits on a sync.Mutex that is
            # held across a timer wait: a limitation of the bubble, not an observation of the client.
            kind = 'BubbleStuck'
        rec = {'index': done, 'run': ids[done], 'kind': kind, 'text': txt[-3000:]}
        {'Hang': info['hangs'], 'Race': info['races'], 'Crash': info['crashes'], 'BubbleStuck': info['stuck']}[kind].append(rec)
        with open(out, 'a') as f:
            # make sure the cut-off line is terminated, then close the run
            f.write('\n')
            # (the recorder writes a run's events when the run ends: of a run that killed the process nothing may have
            # reached the file - it then gets a Cfg event of its own, so that the verdict names the run)
            tail = [l for l in open(out).read().split('\n') if l.strip()]
            open_run = bool(tail) and '"RunEnd"' not in tail[-1]
            if not open_run:
                f.write(json.dumps(dict(k='Cfg', n=999999, t=0, g=0, svc='', ch=0, seq=-1, st=-1, pid=ids[done], hex='', a=0, b=0, s='udp,bubble')) + '\n')
            ev = dict(k=kind, n=999999, t=0, g=-1, svc='', ch=-1, seq=-1, st=-1, pid=ids[done], hex='', a=-1, b=-1,
                      s=(txt.strip().splitlines() or [''])[0][:200])
            f.write(json.dumps(ev) + '\n')
            f.write(json.dumps(dict(k='RunEnd', n=1, t=0, g=-1, svc='', ch=-1, seq=-1, st=-1, pid=-1, hex='', a=ids[done], b=-1, s='')) + '\n')
        frm = done + 1
    sanitize_trace(out)
    if mode == 'real':
        annotate_stalls(out)
    return info


RACE_SEND_SITES = ('handleConnStateRes.func1', 'handleTunnelRes.func1', 'pushInbound.func1')
RACE_CLOSE_SITES = ('(*Tunnel).process.deferwrap', '(*Tunnel).serve.deferwrap', '(*Router).serve.deferwrap', '(*Tunnel).process(', '(*Tunnel).serve(', '(*Router).serve(')


def classify_race(txt):
    """'chan-close-send' for the pattern of known finding C10-F1 - a helper goroutine's send on the heartbeat / ack / inbound
    channel racing with the close of that channel by the serve goroutine (both stacks are channel operations of exactly those
    sites) - and 'data race' for every other report."""
    halves = txt.split('Previous ')
    if len(halves) == 2 and 'Goroutine ' in halves[1]:
        a, b = halves[0], halves[1].split('Goroutine ')[0]
        for snd, cls in ((a, b), (b, a)):
            if 'runtime.chansend' in snd and 'runtime.closechan' in cls and any(x in snd for x in RACE_SEND_SITES) \
                    and any(x in cls for x in RACE_CLOSE_SITES):
                return 'chan-close-send'
    return 'data race'


def annotate_stalls(path):
    """Real-time runs: the driver's watchdog records how late the process was woken (Stall events). The
    largest lateness of a run is written into its Cfg event (field st); the observers widen their UPPER
    time bounds by it -- a starved machine delays the client's timers too -- and never their lower bounds."""
    lines = open(path).read().split('\n')
    out, cur, cfg_ix, worst = [], [], None, 0

    def close():
        nonlocal cur, cfg_ix, worst
        if cfg_ix is not None and worst > 0:
            e = json.loads(cur[cfg_ix])
            e['st'] = worst
            cur[cfg_ix] = json.dumps(e)
        out.extend(cur)
        cur, cfg_ix, worst = [], None, 0
    for l in lines:
        if not l:
            continue
        cur.append(l)
        if '"k":"Cfg"' in l or '"k": "Cfg"' in l:
            cfg_ix = len(cur) - 1
        elif '"k":"Stall"' in l:
            worst = max(worst, json.loads(l)['a'])
        elif '"k":"RunEnd"' in l or '"k": "RunEnd"' in l:
            close()
    close()
    with open(path, 'w') as f:
        f.write('\n'.join(out) + '\n')


def sanitize_trace(path):
    """Drops lines cut off by a crash (they are not valid JSON)."""
    good = []
    dirty = False
    for l in open(path):
        l = l.strip()
        if not l:
            dirty = True
            continue
        try:
            json.loads(l)
            good.append(l)
        except ValueError:
            dirty = True
    if dirty:
        with open(path, 'w') as f:
            f.write('\n'.join(good) + '\n')


TLC_RE_STATES = re.compile(r'(\d+) states generated, (\d+) distinct states found')


def tlc(work, module, cfg=None, env_extra=None, workers=1, timeout=600, extra=None, dfs=False, name=None, cfg_text=None):
    """Runs TLC in a scratch copy of spec/ (cfg_text: contents of a configuration file written there as `cfg`). Returns (rc, stdout)."""
    name = name or module
    d = work.path('tlc_' + name)
    if not os.path.isdir(d):
        os.makedirs(d)
        for f in os.listdir(SPEC):
            if f.endswith('.tla') or f.endswith('.cfg'):
                shutil.copy(os.path.join(SPEC, f), d)
    if cfg_text is not None:
        with open(os.path.join(d, cfg), 'w') as f:
            f.write(cfg_text)
    env = dict(os.environ)
    if env_extra:
        env.update(env_extra)
    jto = env.get('JAVA_TOOL_OPTIONS', '')
    if dfs:
        jto += ' -Dtlc2.tool.queue.IStateQueue=StateDeque'
    env['JAVA_TOOL_OPTIONS'] = (jto + ' -Xss512m').strip()
    cmd = ['timeout', str(int(timeout)), 'tlc', '-workers', str(workers), '-metadir', os.path.join(d, 'md_%d' % int(time.time() * 1000)),
           '-noGenerateSpecTE']
    if cfg:
        cmd += ['-config', cfg]
    if extra:
        cmd += extra
    cmd.append(module + '.tla')
    p = subprocess.run(cmd, cwd=d, env=env, stdout=subprocess.PIPE, stderr=subprocess.STDOUT, text=True)
    return p.returncode, p.stdout


def tlc_states(out):
    m = None
    for m in TLC_RE_STATES.finditer(out):
        pass
    if not m:
        return 0, 0
    return int(m.group(2)), int(m.group(1))   # distinct states, generated (= transitions explored)


# TLC pretty-prints a long tuple over several lines (`<< "BAD",` / `   0,` ...): the patterns tolerate any white space
BAD_RE = re.compile(r'<<\s*"(BAD|NOTE)",\s*(-?\d+),\s*(-?\d+),\s*(-?\d+),\s*<<(.*?)>>\s*>>', re.S)
DONE_RE = re.compile(r'<<\s*"DONE",\s*(\d+)\s*>>')


def parse_flags(out):
    """Returns (bad, notes, done): lists of dict(run, n, line, tags)."""
    bad, notes = [], []
    for m in BAD_RE.finditer(out):
        tags = re.findall(r'"([^"]+)"', m.group(5))
        rec = dict(run=int(m.group(2)), n=int(m.group(3)), line=int(m.group(4)), tags=tags)
        (bad if m.group(1) == 'BAD' else notes).append(rec)
    done = DONE_RE.search(out)
    return bad, notes, (int(done.group(1)) if done else None)


def load_known():
    p = os.path.join(VERIF, 'known_findings.json')
    if not os.path.exists(p):
        return {'findings': [], 'fixed': []}
    return json.load(open(p))


def write_evidence(pid, tier, level, coverage, assumptions, wall, violations):
    d = os.environ.get('VERIF_EVIDENCE_DIR') or os.path.join(VERIF, 'evidence')     # (mutation runs write elsewhere)
    os.makedirs(d, exist_ok=True)
    ev = dict(property_id=pid, tier=tier, seed=seed(), level=level, coverage=coverage, assumptions=assumptions,
              wall_s=round(wall, 2), violations=violations)
    tmp = os.path.join(d, pid + '.json.tmp')
    json.dump(ev, open(tmp, 'w'), indent=1)
    os.replace(tmp, os.path.join(d, pid + '.json'))


def save_replay(pid, name, obj):
    d = os.path.join(VERIF, 'replays', pid)
    os.makedirs(d, exist_ok=True)
    p = os.path.join(d, name + '.json')
    json.dump(obj, open(p, 'w'))
    return p


def split_trace(path):
    """Splits a concatenated trace into {run id: [lines]}."""
    runs, cur, rid = {}, [], None
    for l in open(path):
        l = l.strip()
        if not l:
            continue
        e = json.loads(l)
        if e['k'] == 'Cfg':
            cur, rid = [], e['pid']
        cur.append(l)
        if e['k'] == 'RunEnd':
            if rid is not None:
                runs[rid] = cur
            cur, rid = [], None
    return runs
