"""TLC-generated behaviours of Router.tla -> schedules for the (real-time) router driver, and the comparison of
the events the specification predicts with the events the real knx.Router produced.

One model tick is replayed as UNIT microseconds (25 ms): the post-send pause is a configuration value and scales,
the wait time of a busy indication is carried in milliseconds on the wire and capped by the code at 50 ms, so the
conformance configuration (CONF_Rtr.cfg) uses Cap = 2 ticks and Waits in ticks of 25 ms (this sandbox wakes a
sleeping goroutine 1-3 ms late as a rule, so instants must be well apart). Busy indications carry
control = 1 (no random share), sends do not fail: what is left to chance is the Go scheduler only.

Real time cannot be compared instant by instant. The comparison therefore ignores clock values: the predicted
events are grouped by model instant, and the real sequence must be a concatenation of permutations of those
groups (everything the specification places at one instant may come in any order, nothing may cross an instant).
"""
import os, re, glob, shutil, subprocess, json
import vlib, tlcsched

UNIT = 25000
GUARD = 3000    # environment steps start this long after the instant's nominal time
ACT_RE = re.compile(r'/\\ act = \[(.*?)\]\n', re.S)
EV_RE = re.compile(r'/\\ ev = \[(.*?)\]\n(?=/\\|\n|$)', re.S)
STALL_MAX = 8000  # a run whose process was held up longer than this (microseconds) is not compared
KINDS = ('Out', 'OutErr', 'SendRet', 'Recv', 'Hook')


def parse(path):
    txt = open(path).read()
    out = []
    for st in re.split(r'\nSTATE_\d+ ==', txt)[1:]:
        st += '\n'
        am, em, nm = ACT_RE.search(st), EV_RE.search(st), re.search(r'/\\ now = (\d+)', st)
        if not am:
            continue
        a, e = am.group(1), em.group(1) if em else ''
        out.append(dict(now=int(nm.group(1)) if nm else 0, n=tlcsched.fld(a, 'n'), a=tlcsched.fld(a, 'a', 0), b=tlcsched.fld(a, 'b', 0),
                        ev=dict(k=tlcsched.fld(e, 'k', 'none'), pid=tlcsched.fld(e, 'pid', -1), s=tlcsched.fld(e, 's', ''), a=tlcsched.fld(e, 'a', -1),
                                g=tlcsched.fld(e, 'g', -1), svc=tlcsched.fld(e, 'svc', ''))))
    return out


def key_of(k, pid, s, a):
    """Comparable form of an event (spec side: a in model micro-units of 1000 per tick)."""
    if k == 'Hook':
        if s == 'busy-locked':
            return ['Hook', s, a]
        if s == 'lost-locked':
            return ['Hook', s, a]
        return ['Hook', s, -1]
    if k == 'SendRet':
        return [k, pid, s]
    if k == 'OutErr':
        return [k, -1, '']
    return [k, pid, '']


def project(acts, consts, run_id, tag):
    steps, nsend, at = [], 0, -1
    for a in acts[1:]:
        n = a['n']
        if n in ('tick', 'internal', 'timer', 'take', 'failsend', 'init', 'enq', 'choice'):
            continue
        if a['now'] != at:      # environment steps of one instant run back to back, instants are absolute (no drift)
            at = a['now']
            steps.append(dict(op='advto', d=at * UNIT + GUARD))
        if n == 'send':
            steps.append(dict(op='send', g=a['a'], p=100 + nsend))
            nsend += 1
        elif n == 'recv':
            steps.append(dict(op='recv1'))
        elif n == 'ind':
            steps.append(dict(op='ind', p=a['a']))
        elif n == 'busy':
            steps.append(dict(op='busy', n=a['a'] * UNIT // 1000, i=a['b']))
        elif n == 'lost':
            steps.append(dict(op='lost', n=a['a']))
        elif n == 'close':
            steps.append(dict(op='close'))
    steps.append(dict(op='advto', d=((acts[-1]['now'] if acts else 0) + consts['Pause'] + 2) * UNIT))
    # the first instant at which the Go runtime (not the environment) decides the order: two goroutines queueing for
    # the send mutex at one instant, or several overflow goroutines racing to the inbound channel
    choice = None
    for a in acts:
        if a['n'] == 'choice' and (choice is None or a['now'] < choice):
            choice = a['now']
    pred = []
    for a in acts:
        e = a['ev']
        if e['k'] in KINDS:
            pred.append([a['now']] + key_of(e['k'], e['pid'], e['s'], e['a']))
    cfg = dict(pause=consts['Pause'] * UNIT, retain=consts['Retain'], mode='real', q=500, slack=300, T=200_000, group=False)
    return dict(run=run_id, cfg=cfg, steps=steps, tag=tag, predicted=pred, pred_end=min(acts[-1]['now'] if acts else 0, choice if choice is not None else 1 << 30))


def generate(work, cfg, num, depth, seed, first_id, tag):
    d = work.path('rtrgen_%d' % seed)
    os.makedirs(d, exist_ok=True)
    for f in os.listdir(vlib.SPEC):
        if f.endswith('.tla') or f.endswith('.cfg'):
            shutil.copy(os.path.join(vlib.SPEC, f), d)
    p = subprocess.run(['timeout', '300', 'tlc', '-workers', '1', '-simulate', 'file=%s/beh,num=%d' % (d, num), '-depth', str(depth),
                        '-seed', str(seed), '-metadir', os.path.join(d, 'md'), '-config', cfg, 'Router.tla'],
                       cwd=d, stdout=subprocess.PIPE, stderr=subprocess.STDOUT, text=True)
    files = sorted(glob.glob(os.path.join(d, 'beh_*')))
    if not files:
        raise vlib.Inconclusive('TLC produced no router behaviours:\n' + p.stdout[-2000:])
    consts = tlcsched.read_consts(os.path.join(d, cfg))
    return [project(parse(f), consts, first_id + k, tag) for k, f in enumerate(files)]


def conformance(runs, trace_files):
    """Returns (equal, compared, events, diffs)."""
    traces = {}
    for path in set(trace_files):
        traces.update(vlib.split_trace(path))
    equal = compared = nev = 0
    diffs = []
    for r in runs:
        if 'predicted' not in r or r['run'] not in traces:
            continue
        got, skipped = [], False
        for l in traces[r['run']]:
            e = json.loads(l)
            if e['k'] == 'End':
                break
            if e['k'] == 'Stall' and e['a'] < STALL_MAX:
                continue
            if e['k'] in ('Skip', 'Late', 'Stall'):
                skipped = True
                break
            if e['k'] in KINDS:
                a = e['a']
                if e['k'] == 'Hook' and e['s'] == 'busy-locked':
                    a = e['a'] * 1000 // UNIT          # microseconds -> model micro-units
                got.append(key_of(e['k'], e['pid'], e['s'], a))
        if skipped:
            continue
        # the behaviour is cut at the simulation depth: the client steps of its last instant may be missing
        end = r['pred_end']
        groups = {}
        for p in r['predicted']:
            if p[0] < end:
                groups.setdefault(p[0], []).append(p[1:])
        compared += 1
        pos, ok, where = 0, True, None
        for t in sorted(groups):
            g = groups[t]
            chunk = got[pos:pos + len(g)]
            if sorted(map(json.dumps, chunk)) != sorted(map(json.dumps, g)):
                ok, where = False, dict(run=r['run'], tick=t, predicted=g, real=chunk)
                break
            pos += len(g)
            nev += len(g)
        if ok:
            equal += 1
        elif len(diffs) < 8:
            diffs.append(where)
    return equal, compared, nev, diffs
