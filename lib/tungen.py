"""Seeded schedule generators for the tunnel drivers (environment choices only).
Steps name datagrams by position and frames relative to the live counters, so the same
schedule language carries TLC-generated behaviours (lib/tlcsched.py) and these walks."""
import random

BIGH = 1_500_000_000  # heartbeat far away (us); virtual runs stay well below it

CFGS_ST = [  # (R, T) resend interval / response timeout in us
    (500_000, 10_000_000), (2_000, 14_000), (5_000, 12_000), (1_000, 4_500), (3_000, 3_000 * 4 + 1_000)]


def S(op, **kw):
    d = {'op': op}
    d.update(kw)
    return d


def clean_send(pid, g=1):
    return [S('send', g=g, p=pid), S('net', dir='c2g', svc='TunnelReq', i=0, act='deliver'), S('net', dir='g2c', svc='TunnelRes', i=0, act='deliver')]


def clean_tele(pid):
    return [S('gwtele', p=pid), S('net', dir='g2c', svc='TunnelReq', i=0, act='deliver'), S('recv'), S('net', dir='c2g', svc='TunnelRes', i=0, act='deliver')]


def odd(rng, base):
    """A duration near base that avoids coinciding with timer expiries."""
    return max(1, base + rng.choice([-37, -13, 7, 11, 29, 53]))


class Gen:
    def __init__(self, seed):
        self.rng = random.Random(seed)
        self.pid = 0

    def newpid(self):
        self.pid += 1
        return self.pid % 60000 + 1

    # ---- C03: sender -------------------------------------------------------
    def sender(self, run, n=40, wrap=None, tcp=False):
        rng = self.rng
        R, T = rng.choice(CFGS_ST)
        cfg = dict(R=R, T=T, H=BIGH, tcp=tcp)
        st = [S('connect')]
        k = wrap if wrap is not None else 0
        for _ in range(k):
            st += clean_send(self.newpid())
        for _ in range(n):
            c = rng.random()
            if c < 0.22:
                st.append(S('send', g=1, p=self.newpid()))
            elif c < 0.42:
                st.append(S('net', dir='c2g', i=rng.randrange(4), act=rng.choice(['deliver', 'deliver', 'deliver', 'lose', 'dup'])))
            elif c < 0.64:
                st.append(S('net', dir='g2c', i=rng.randrange(4), act=rng.choice(['deliver', 'deliver', 'deliver', 'lose', 'dup'])))
            elif c < 0.78:
                # (every status code, also unassigned ones; any foreign channel; any sequence number)
                st.append(S('inject', svc='TunnelRes', ch=rng.choice(['own', 'own', 'other', 'off']), n=rng.randrange(1, 256),
                            rel=rng.choice([-2, -1, 0, 0, 1, rng.randrange(2, 255)]),
                            st=rng.choice([0, 0, 0, 0x29, 0x21, rng.randrange(1, 256)])))
            elif c < 0.93:
                st.append(S('adv', d=odd(rng, rng.choice([R // 2, R, R, 2 * R, T // 2]))))
            else:
                st.append(S('adv', d=odd(rng, T)))
        st.append(S('flush', n=2))
        st.append(S('adv', d=odd(rng, T)))
        return dict(run=run, cfg=cfg, steps=st, tag='sender')

    # ---- C03/C05/C09: several senders in scaled real time (contention on the sequence mutex) ----
    def senders_rt(self, run, nsenders=None, n=30, reconnect=False, group=False):
        rng = self.rng
        R, T = rng.choice([(20_000, 100_000), (15_000, 70_000)])
        cfg = dict(R=R, T=T, H=BIGH, mode='real', q=1500, slack=12_000, group=group)
        k = nsenders or rng.choice([2, 2, 3, 4, 8])
        st = [S('connect'), S('reader', act='on')]
        for _ in range(n):
            c = rng.random()
            if c < 0.40:
                st.append(S('send', g=rng.randrange(1, k + 1), p=self.newpid()))
            elif c < 0.62:
                st.append(S('flush', n=1))
            elif c < 0.70:
                st.append(S('net', dir=rng.choice(['c2g', 'g2c']), i=rng.randrange(3), act=rng.choice(['lose', 'dup', 'deliver'])))
            elif c < 0.80:
                st.append(S('gwtele', p=self.newpid()))
            elif c < 0.93:
                st.append(S('adv', d=rng.choice([R // 4, R // 2, R, 2 * R])))
            elif reconnect:
                st += [S('gwpolicy', s='nextchan', n=rng.choice([1, 2, 3])), S('gwgiveup'), S('flush', n=1), S('adv', d=R // 3), S('flush', n=2)]
            else:
                st.append(S('adv', d=T // 2))
        st += [S('flush', n=2), S('adv', d=T + R), S('flush', n=2), S('adv', d=T + R), S('flush', n=1)]
        return dict(run=run, cfg=cfg, steps=st, tag='senders-rt')

    # ---- C04: receiver -----------------------------------------------------
    def receiver(self, run, n=50, wrap=None, tcp=False, group=False):
        rng = self.rng
        R, T = rng.choice(CFGS_ST)
        cfg = dict(R=R, T=T, H=BIGH, tcp=tcp, group=group)
        st = [S('connect')]
        k = wrap if wrap is not None else 0
        for _ in range(k):
            st += [S('inject', svc='TunnelReq', ch='own', rel=0, p=self.newpid()), S('recv')]
        reader = False
        for _ in range(n):
            c = rng.random()
            if c < 0.55:
                st.append(S('inject', svc='TunnelReq', ch=rng.choice(['own'] * 5 + ['other', 'off']), n=rng.randrange(1, 256),
                            rel=rng.choice([0, 0, 0, 0, 0, -1, -1, 1, 2, -2, 3, 128, rng.randrange(4, 253)]), p=self.newpid()))
            elif c < 0.75:
                st.append(S('recv'))
            elif c < 0.80:
                reader = not reader
                st.append(S('reader', act='on' if reader else 'off'))
            elif c < 0.86:
                st.append(S('drain'))
            elif c < 0.90:
                st.append(S('adv', d=odd(rng, R)))
            elif c < 0.92:
                st.append(S('adv', d=odd(rng, rng.choice([T, 2 * T]))))    # the application stalls longer than the response timeout
            elif c < 0.96 and not tcp:
                # reconnect: the gateway gives up, the client reconnects cleanly
                st += [S('flush', n=1), S('gwpolicy', s='nextchan', n=rng.choice([1, 2, 3])), S('gwgiveup'), S('flush', n=3)]
            elif c < 0.98 and not tcp:
                # a transient local write error hits the next acknowledgement; the gateway then repeats the telegram
                pid = self.newpid()
                st += [S('sockfail', act='once', svc='TunnelRes'), S('inject', svc='TunnelReq', ch='own', rel=0, p=pid), S('recv'),
                       S('inject', svc='TunnelReq', ch='own', rel=-1, p=pid), S('recv')]
            else:
                st.append(S('inject', svc='TunnelRes', ch='own', rel=0, st=0))
        if reader:
            st.append(S('reader', act='off'))
        st.append(S('drain'))
        return dict(run=run, cfg=cfg, steps=st, tag='receiver')

    def ack_once(self, run):
        """C03: an acknowledgement is consumed once. A Send is acknowledged, the gateway drops and re-establishes the connection
        on the SAME channel at once, and the first Send of the new connection (same sequence number 0) loses all its traffic:
        it must not succeed on anything left over from the earlier acknowledgement."""
        rng = self.rng
        R, T = rng.choice(CFGS_ST)
        st = [S('connect')]
        for _ in range(rng.choice([0, 0, 1, 2])):     # (sequence number 0, or a small one reached again after the reconnect)
            st += clean_send(self.newpid())
        k = len(st)
        st += clean_send(self.newpid())
        st += [S('gwpolicy', s='nextchan', n=1), S('gwgiveup'), S('flush', n=3)]
        for _ in range((k - 1) // max(1, len(clean_send(0)))):
            st += clean_send(self.newpid())
        st += [S('send', g=1, p=self.newpid()), S('net', dir='c2g', svc='TunnelReq', i=0, act='lose'), S('adv', d=odd(rng, R // 2))]
        st += [S('net', dir='c2g', svc='TunnelReq', i=0, act='lose'), S('adv', d=odd(rng, T)), S('flush', n=2), S('adv', d=odd(rng, T))]
        return dict(run=run, cfg=dict(R=R, T=T, H=BIGH), steps=st, tag='ack-once')

    def ack_status(self, run, status):
        """C03: a matching acknowledgement with error status `status` (every code 1..255, assigned or not) makes that Send fail -
        and nothing else: the gateway's own (late) OK acknowledgement for the same number is ignored, the next Send uses the next
        number and succeeds."""
        rng = self.rng
        R, T = rng.choice(CFGS_ST)
        st = [S('connect')]
        for _ in range(rng.choice([0, 1, 2])):
            st += clean_send(self.newpid())
        st += [S('send', g=1, p=self.newpid()), S('net', dir='c2g', svc='TunnelReq', i=0, act='deliver'),
               S('inject', svc='TunnelRes', ch='own', rel=0, st=status), S('flush', n=2),
               S('net', dir='g2c', svc='TunnelRes', i=0, act='deliver'), S('flush', n=2)]
        st += clean_send(self.newpid())
        st += [S('flush', n=2), S('adv', d=odd(rng, T))]
        return dict(run=run, cfg=dict(R=R, T=T, H=BIGH), steps=st, tag='ack-status')

    def tele_across_reconnect(self, run):
        """C05 (gateway -> client): telegrams before and after a reconnect the library performs by itself; every telegram the
        gateway got acknowledged must have reached the application, on the new connection from number 0 on."""
        rng = self.rng
        R, T = rng.choice(CFGS_ST)
        st = [S('connect'), S('reader', act='on')]
        for _ in range(rng.choice([1, 1, 2, 3])):
            st += clean_tele(self.newpid())
        st += [S('gwpolicy', s='nextchan', n=rng.choice([1, 2, 9])), S('gwgiveup'), S('flush', n=3)]
        for _ in range(rng.choice([2, 3])):
            st += clean_tele(self.newpid())
        st += [S('flush', n=2), S('reader', act='off'), S('drain')]
        return dict(run=run, cfg=dict(R=R, T=T, H=BIGH), steps=st, tag='tele-across-reconnect')

    # ---- C05: both directions over the lossy link with the rule-following gateway
    def link(self, run, n=60, wrap=0):
        rng = self.rng
        R, T = rng.choice(CFGS_ST)
        cfg = dict(R=R, T=T, H=BIGH)
        st = [S('connect'), S('reader', act='on')]
        for _ in range(wrap):
            st += clean_send(self.newpid())
            st += [S('gwtele', p=self.newpid()), S('flush', n=2)]
        for _ in range(n):
            c = rng.random()
            if c < 0.15:
                st.append(S('send', g=1, p=self.newpid()))
            elif c < 0.27:
                st.append(S('gwtele', p=self.newpid()))
            elif c < 0.35:
                st.append(S('gwresend'))
            elif c < 0.57:
                st.append(S('net', dir='c2g', i=rng.randrange(3), act=rng.choice(['deliver', 'deliver', 'deliver', 'lose', 'dup'])))
            elif c < 0.80:
                st.append(S('net', dir='g2c', i=rng.randrange(3), act=rng.choice(['deliver', 'deliver', 'deliver', 'lose', 'dup'])))
            elif c < 0.93:
                st.append(S('adv', d=odd(rng, rng.choice([R // 2, R, 2 * R]))))
            elif c < 0.96:
                # a transient local write error (ENOBUFS, EPERM ...): exactly one acknowledgement / request is not written
                st.append(S('sockfail', act='once', svc=rng.choice(['TunnelRes', 'TunnelRes', 'TunnelReq'])))
            else:
                st.append(S('adv', d=odd(rng, T)))
        st += [S('flush', n=3), S('adv', d=odd(rng, T)), S('flush', n=2), S('reader', act='off'), S('drain')]
        return dict(run=run, cfg=cfg, steps=st, tag='link')

    def close_on_channel(self, run, ch):
        """C10: the gateway may assign any channel id, 0 and 255 included; Close must send its one disconnect request there too."""
        rng = self.rng
        R, T = rng.choice([(2_000, 6_001), (1_000, 5_003)])
        st = [S('gwpolicy', s='nextchan', n=ch), S('connect')]
        if rng.random() < 0.5:   # ... or after a reconnect onto that channel
            st = [S('connect'), S('gwpolicy', s='nextchan', n=ch), S('gwgiveup'), S('flush', n=3)]
        st += clean_send(self.newpid()) + clean_tele(self.newpid())
        st += [S('close', g=1), S('flush', n=1), S('adv', d=odd(rng, R)), S('census'), S('send', g=7, p=self.newpid()), S('recv'), S('census')]
        return dict(run=run, cfg=dict(R=R, T=T, H=BIGH), steps=st, tag='close-on-channel')

    def close_after_disc_in_heartbeat_rt(self, run):
        """C10, scaled real time (locks of the client are involved, which virtual time cannot advance through): the gateway
        ends the connection while a heartbeat exchange is in flight, the client reconnects, then Close."""
        rng = self.rng
        R, T, H = 15_000, 60_000, 30_000
        cfg = dict(R=R, T=T, H=H, mode='real', q=1500, slack=12_000)
        st = [S('connect'), S('gwpolicy', s='hb', act='silent', st=0x21), S('adv', d=H + 6_000), S('flush', n=1),
              S('gwpolicy', s='nextchan', n=2), S('gwgiveup'), S('flush', n=2), S('adv', d=rng.choice([2_000, R, R + 4_000])), S('flush', n=2)]
        if rng.random() < 0.5:
            st += [S('adv', d=H), S('flush', n=1)]
        st += [S('close', g=1), S('flush', n=1), S('adv', d=800_000), S('census'), S('send', g=7, p=self.newpid()), S('recv'), S('census')]
        return dict(run=run, cfg=cfg, steps=st, tag='close-after-disc-in-heartbeat-rt')

    def close_in_reconnect(self, run):
        """C10: Close lands while the client reconnects and the gateway answers every connect request 'busy'."""
        rng = self.rng
        R, T = rng.choice([(2_000, 6_001), (2_000, 4_001), (1_000, 5_003)])
        cfg = dict(R=R, T=T, H=BIGH)
        st = [S('connect'), S('gwpolicy', s='conn', act=rng.choice(['busy', 'busy', 'silent'])), S('gwgiveup'), S('flush', n=3)]
        st += [S('close', g=1)]      # (one closer: a second one would wait on sync.Once, which the bubble cannot advance through)
        for _ in range(4 * T // R + 4):   # the gateway keeps answering for well over the bound of Close
            st += [S('adv', d=R), S('flush', n=2)]
        st += [S('adv', d=odd(rng, T)), S('census'), S('send', g=7, p=self.newpid()), S('recv'), S('census')]
        return dict(run=run, cfg=cfg, steps=st, tag='close-in-reconnect')

    # ---- C09: heartbeat / reconnect ------------------------------------------
    def hb_foreign(self, run, status):
        """C09: while a heartbeat exchange is pending (the gateway stays silent), connection-state responses, disconnect
        requests and disconnect responses for a FOREIGN channel arrive with status `status`: none of them may end the exchange,
        fail it or tear the tunnel down - the client keeps repeating its request every R and reconnects at the timeout."""
        rng = self.rng
        R, T, H = rng.choice([(2_000, 6_001, 8_003), (1_000, 5_003, 20_011), (2_000, 6_001, 3_001)])
        st = [S('connect'), S('gwpolicy', s='hb', act='silent', st=0x21), S('adv', d=odd(rng, H)), S('flush', n=2)]
        for svc in rng.sample(['ConnStateRes', 'ConnStateRes', 'DiscReq', 'DiscRes'], 3):
            st += [S('inject', svc=svc, ch=rng.choice(['other', 'off']), n=rng.randrange(1, 256), st=status), S('flush', n=2),
                   S('adv', d=odd(rng, R // 2)), S('flush', n=2)]
        st += [S('gwpolicy', s='hb', act='ok'), S('adv', d=odd(rng, T)), S('flush', n=3), S('adv', d=odd(rng, H)), S('flush', n=2)]
        st += clean_send(self.newpid())
        return dict(run=run, cfg=dict(R=R, T=T, H=H), steps=st, tag='hb-foreign')

    def writefail_conn(self, run):
        """C09: a transient local error strikes a write of the connection management itself - the disconnect response that
        answers the gateway's disconnect request (the reconnect is owed all the same), a connection-state request (the
        heartbeat may fail: a reconnect is permitted, and the tunnel works afterwards) or a connect request of the reconnect
        (the tunnel terminates)."""
        rng = self.rng
        R, T, H = rng.choice([(2_000, 6_001, 8_003), (1_000, 5_003, 20_011), (2_000, 6_001, BIGH)])
        kind = rng.choice(['DiscRes', 'DiscRes', 'ConnStateReq', 'ConnReq'] if H != BIGH else ['DiscRes', 'DiscRes', 'ConnReq'])
        st = [S('connect')]
        if rng.random() < 0.5:
            st += clean_send(self.newpid())
        if rng.random() < 0.5:
            st += clean_tele(self.newpid())
        st += [S('gwpolicy', s='nextchan', n=rng.choice([1, 2, 3])), S('sockfail', act='once', svc=kind)]
        if kind == 'ConnStateReq':
            st += [S('adv', d=odd(rng, H)), S('flush', n=3), S('adv', d=odd(rng, R)), S('flush', n=3)]
        else:
            st += [S('gwgiveup'), S('flush', n=3), S('adv', d=odd(rng, R)), S('flush', n=3)]
        st += clean_send(self.newpid()) + clean_tele(self.newpid())
        st += [S('adv', d=odd(rng, T)), S('flush', n=3), S('recv'), S('recv')]
        return dict(run=run, cfg=dict(R=R, T=T, H=H), steps=st, tag='writefail-' + kind)

    def heartbeat(self, run, n=40):
        rng = self.rng
        R, T, H = rng.choice([(500_000, 10_000_000, 10_000_000), (2_000, 6_001, 8_003), (2_000, 4_001, 9_007),
                              (1_000, 5_003, 20_011), (2_000, 6_001, 3_001)])
        cfg = dict(R=R, T=T, H=H)
        st = [S('connect')]
        for _ in range(n):
            c = rng.random()
            if c < 0.30:
                st += [S('adv', d=odd(rng, rng.choice([R, R, H // 2, H]))), S('flush', n=2)]
            elif c < 0.42:
                st.append(S('adv', d=odd(rng, rng.choice([R, H, T]))))
            elif c < 0.52:
                st.append(S('gwpolicy', s='hb', act=rng.choice(['ok', 'ok', 'silent', 'err', 'foreign']),
                            st=rng.choice([0x21, 0x26, 0x27, 0x29, 0xff, rng.randrange(1, 256)])))   # (every non-zero status code)
            elif c < 0.58:
                # (a refusal carries any status code, assigned or not)
                st.append(S('gwpolicy', s='conn', act=rng.choice(['ok', 'ok', 'ok', 'busy', 'refuse', 'silent']), st=rng.choice([0, 0x22, 0x23, rng.randrange(1, 256)])))
            elif c < 0.63:
                st.append(S('gwpolicy', s='nextchan', n=rng.choice([1, 2, 3, 1, 0, 255])))
            elif c < 0.70:
                st.append(S('inject', svc=rng.choice(['DiscReq', 'DiscRes', 'ConnStateRes']), ch=rng.choice(['other', 'off']), n=rng.randrange(1, 256),
                            st=rng.choice([0, 0x21, rng.randrange(1, 256)])))
            elif c < 0.75:
                st += [S('gwgiveup'), S('flush', n=3)]
            elif c < 0.78:
                st.append(S('inject', svc='DiscRes', ch='own', st=rng.choice([0, 0, 0x21, 0x26])))
            elif c < 0.86:
                st += clean_send(self.newpid())
            elif c < 0.93:
                st += clean_tele(self.newpid())
            else:
                st.append(S('flush', n=2))
        st += [S('flush', n=2), S('recv')]
        return dict(run=run, cfg=cfg, steps=st, tag='heartbeat')

    # ---- C10: Close injected into any scenario --------------------------------
    def with_close(self, base, closers=None):
        rng = self.rng
        st = list(base['steps'])
        pos = rng.randrange(1, len(st) + 1)
        k = closers or rng.choice([1, 1, 2, 3, 4])
        ins = []
        if rng.random() < 0.25:
            ins.append(S('sockfail', act=rng.choice(['send', 'inbound'])))
        ins += [S('close', g=c + 1) for c in range(k)]
        T = base['cfg']['T']
        cfg = dict(base['cfg'])
        if k > 1 and rng.random() < 0.6:
            cfg['discdelay'] = rng.choice([20, 200, 2000])   # the disconnect request's socket write takes a while
        ins += [S('flush', n=1), S('adv', d=odd(rng, base['cfg']['R'])), S('census'), S('send', g=7, p=self.newpid()), S('recv'),
                S('adv', d=odd(rng, T)), S('census')]
        tail = [s for s in st[pos:pos + rng.randrange(0, 6)] if s['op'] not in ('connect', 'new', 'reader', 'drain')]
        return dict(run=base['run'], cfg=cfg, steps=st[:pos] + ins + tail, tag='close+' + base.get('tag', ''))

    def close_with_parked(self, run, size):
        """C10: the application has not read Inbound for a whole burst of `size` accepted telegrams (each parked in a helper
        goroutine, or wherever the client keeps them) when Close is called: Close returns in time all the same."""
        rng = self.rng
        R, T = rng.choice([(2_000, 14_000), (1_000, 4_500), (3_000, 13_000)])
        base = self.pid % 60000 + 2
        self.pid += size
        st = [S('connect'), S('burst', n=size, p=base)]
        if rng.random() < 0.5:
            st.append(S('adv', d=odd(rng, R)))
        # (nobody reads Inbound until Close's bound has passed: a Close that waits for the application to make room is late)
        st += [S('close', g=1), S('flush', n=1), S('adv', d=odd(rng, R)), S('census'), S('send', g=7, p=self.newpid()),
               S('adv', d=odd(rng, 6 * T)), S('census'), S('recv')]
        return dict(run=run, cfg=dict(R=R, T=T, H=BIGH), steps=st, tag='close-with-parked')

    def ackfail_order(self, run, group=False):
        """C17 / C04: the application is ready all the time; the write of one telegram's acknowledgement fails with a transient
        error, the gateway goes on with the next telegrams all the same (or repeats), later one of them is repeated: every
        accepted telegram is handed over in the order of acceptance, none is held back."""
        rng = self.rng
        R, T = rng.choice([(2_000, 14_000), (1_000, 4_500), (3_000, 13_000)])
        st = [S('connect'), S('reader', act='on')]
        n = rng.randrange(4, 9)
        bad = rng.randrange(0, n - 2)
        rep = rng.randrange(bad + 1, n)
        for i in range(n):
            pid = self.newpid()
            if i == bad:
                st.append(S('sockfail', act='once', svc='TunnelRes'))
            st.append(S('inject', svc='TunnelReq', ch='own', rel=0, p=pid))
            if i == bad and rng.random() < 0.4:
                st.append(S('inject', svc='TunnelReq', ch='own', rel=-1, p=pid))     # (the gateway repeats the unacknowledged one first)
            if i == rep:
                st.append(S('inject', svc='TunnelReq', ch='own', rel=-1, p=pid))     # a repetition of a later telegram
            if rng.random() < 0.3:
                st.append(S('adv', d=odd(rng, R // 2)))
        st += [S('adv', d=odd(rng, R)), S('reader', act='off'), S('drain')]
        return dict(run=run, cfg=dict(R=R, T=T, H=BIGH, group=group), steps=st, tag='ackfail-order')

    # ---- C17: bursts ------------------------------------------------------------
    def burst(self, run, size, mode, group=False, tcp=False):
        rng = self.rng
        R, T = rng.choice(CFGS_ST)
        cfg = dict(R=R, T=T, H=BIGH, group=group, tcp=tcp)
        st = [S('connect')]
        if mode == 'ready':
            st.append(S('reader', act='on'))
        left = size
        while left > 0:
            k = left if mode != 'intermittent' else min(left, rng.randrange(1, 5))
            base = self.pid % 60000 + 2
            self.pid += k
            st.append(S('burst', n=k, p=base))
            left -= k
            if mode == 'intermittent':
                for _ in range(rng.randrange(0, 3)):
                    st.append(S('recv'))
            if mode != 'ready' and rng.random() < 0.5:
                st.append(S('adv', d=odd(rng, rng.choice([R // 2, R, 2 * R, T]))))   # the application stalls for a while
        if mode == 'ready':
            st.append(S('reader', act='off'))
        st.append(S('drain'))
        return dict(run=run, cfg=cfg, steps=st, tag='burst-' + mode)
