#!/bin/sh
# usage: seedrun.sh <tier> [ID...] : applies every stored seeded defect /verif/seeded/<ID>-<k>/patch.diff to /repo in turn,
# runs check <ID> and reverts. Expectation: rc=1 for each (the defect is detected). Mutates /repo while it runs.
tier=$1; shift
ids="$*"; [ -z "$ids" ] && ids=$(ls /verif/seeded | sed 's/-.*//' | sort -u)
for id in $ids; do for d in /verif/seeded/$id-*; do
  [ -f $d/patch.diff ] || continue
  t0=$(date +%s); out=$(/verif/lib/trymut.sh $d/patch.diff bin/check $id $tier 2>&1); rc=$?; t1=$(date +%s)
  echo "SEEDED $(basename $d) rc=$rc $((t1-t0))s $(echo "$out" | grep -o 'clauses flagged.*\|INCONCLUSIVE.*\|PATCH FAILED.*' | head -1 | cut -c1-160) $(echo "$out" | grep -o 'conformance [0-9/]*' | head -1)"
done; done
