#!/bin/sh
# usage: seedrun.sh <tier> [ID...] : applies every stored seeded defect /verif/seeded/<ID>-<k>/patch.diff to /repo in turn,
# runs check <ID> and reverts. Expectation: rc=1 for each (the defect is detected). Mutates /repo while it runs.
tier=$1; shift
ids="$*"; [ -z "$ids" ] && ids=$(ls /verif/seeded | sed 's/-.*//' | sort -u)
for id in $ids; do for d in /verif/seeded/$id-*; do
  [ -f $d/patch.diff ] || continue
  if python3 -c "import json,sys;sys.exit(0 if json.load(open('$d/meta.json')).get('detected', True) is False else 1)" 2>/dev/null; then echo "SEEDED $(basename $d) recorded as NOT DETECTED (see meta.json)"; continue; fi
  # (a defect may be filed under one property and be visible to the check of another: meta.json "detected_by")
  chk=$(python3 -c "import json;print(' '.join(json.load(open('$d/meta.json')).get('detected_by',['$id'])))" 2>/dev/null || echo $id)
  rc=0; out=""; t0=$(date +%s)
  for c in $chk; do o=$(/verif/lib/trymut.sh $d/patch.diff bin/check $c $tier 2>&1); r=$?; out="$out$o"; [ $r -ne 0 ] && rc=$r; done; t1=$(date +%s)
  echo "SEEDED $(basename $d) rc=$rc $((t1-t0))s $(echo "$out" | grep -o 'clauses flagged.*\|INCONCLUSIVE.*\|PATCH FAILED.*' | head -1 | cut -c1-160) $(echo "$out" | grep -o 'conformance [0-9/]*' | head -1)"
done; done
